//! Value sources for obligation bodies.
//!
//! An obligation body is written once, generic over `Src`, and is run
//!  * under Kani with `KaniSrc` (every draw is `kani::any()`, `assume!` is
//!    `kani::assume`, `check!` is an assertion CBMC must discharge),
//!  * natively with `ReplaySrc` (draws are the byte vectors of a Kani
//!    counterexample or of a recorded replay file),
//!  * natively with `RandSrc` (seeded pseudo-random draws; used only by the
//!    concretiser *after* a verifier has already failed an obligation, to find
//!    a concrete input for the replay file – never to decide a property).
//!
//! Rule for obligation authors: draw all *inputs* first; ghost values that only
//! exist under Kani (symbolic memo tables of contract stubs) are drawn after
//! them, so that a replay needs only a prefix of the recorded vectors.

pub trait Src {
    fn u8(&mut self) -> u8;
    fn u16(&mut self) -> u16;
    fn u32(&mut self) -> u32;
    fn u64(&mut self) -> u64;
    fn usize(&mut self) -> usize;
    fn bool(&mut self) -> bool;
    fn char(&mut self) -> char;
    /// a value in 0..n (n >= 1)
    fn below(&mut self, n: u8) -> u8;
    /// native sources: record a failed check
    fn fail(&mut self, name: &'static str);
    /// native sources: the drawn input does not satisfy the precondition
    fn reject(&mut self);
    /// native sources: a corner of the precondition was reached
    fn covered(&mut self, name: &'static str);
}

#[cfg(kani)]
pub struct KaniSrc;

#[cfg(kani)]
pub static mut REACH_OFF: bool = false;

#[cfg(kani)]
impl Src for KaniSrc {
    #[inline(always)]
    fn u8(&mut self) -> u8 {
        kani::any()
    }
    #[inline(always)]
    fn u16(&mut self) -> u16 {
        kani::any()
    }
    #[inline(always)]
    fn u32(&mut self) -> u32 {
        kani::any()
    }
    #[inline(always)]
    fn u64(&mut self) -> u64 {
        kani::any()
    }
    #[inline(always)]
    fn usize(&mut self) -> usize {
        kani::any()
    }
    #[inline(always)]
    fn bool(&mut self) -> bool {
        kani::any()
    }
    #[inline(always)]
    fn char(&mut self) -> char {
        kani::any()
    }
    #[inline(always)]
    fn below(&mut self, n: u8) -> u8 {
        let v: u8 = kani::any();
        kani::assume(v < n);
        v
    }
    fn fail(&mut self, _name: &'static str) {}
    fn reject(&mut self) {}
    fn covered(&mut self, _name: &'static str) {}
}

/// `check!(s, cond, "Cxx.obligation.clause")` – a postcondition clause.
#[macro_export]
macro_rules! check {
    ($s:expr, $c:expr, $name:literal) => {{
        #[cfg(kani)]
        {
            let _ = &$s;
            assert!($c, $name);
        }
        #[cfg(not(kani))]
        {
            if !($c) {
                $crate::src::Src::fail($s, $name);
            }
        }
    }};
}

/// `assume!(s, cond)` – a precondition clause. Only at the top level of an
/// obligation function (natively it returns from it).
#[macro_export]
macro_rules! assume {
    ($s:expr, $c:expr) => {{
        #[cfg(kani)]
        {
            let _ = &$s;
            kani::assume($c);
        }
        #[cfg(not(kani))]
        {
            if !($c) {
                $crate::src::Src::reject($s);
                return;
            }
        }
    }};
}

/// `reach!(s, cond, "name")` – vacuity guard: the driver requires every cover
/// to be SATISFIED.
#[macro_export]
macro_rules! reach {
    ($s:expr, $c:expr, $name:literal) => {{
        #[cfg(kani)]
        {
            let _ = &$s;
            // covers are switched off in the playback variant of a harness, so that the
            // generated concrete test is the one of the FAILED check
            kani::cover!(unsafe { !$crate::src::REACH_OFF } && $c, $name);
        }
        #[cfg(not(kani))]
        {
            if $c {
                $crate::src::Src::covered($s, $name);
            }
        }
    }};
}

// ---------------------------------------------------------------- native sources

#[cfg(not(kani))]
pub mod native {
    use super::Src;
    extern crate std;
    use std::vec::Vec;

    /// Replays recorded byte vectors (little endian, one per draw).
    pub struct ReplaySrc {
        pub vecs: Vec<Vec<u8>>,
        pub pos: usize,
        pub failed: Vec<&'static str>,
        pub rejected: bool,
        pub exhausted: bool,
        pub covered: Vec<&'static str>,
    }

    impl ReplaySrc {
        pub fn new(vecs: Vec<Vec<u8>>) -> Self {
            ReplaySrc { vecs, pos: 0, failed: Vec::new(), rejected: false, exhausted: false, covered: Vec::new() }
        }
        fn next(&mut self, n: usize) -> u64 {
            if self.pos >= self.vecs.len() {
                self.exhausted = true;
                return 0;
            }
            let v = &self.vecs[self.pos];
            self.pos += 1;
            let mut x: u64 = 0;
            for (i, b) in v.iter().enumerate().take(n.min(8)) {
                x |= (*b as u64) << (8 * i);
            }
            x
        }
    }

    impl Src for ReplaySrc {
        fn u8(&mut self) -> u8 {
            self.next(1) as u8
        }
        fn u16(&mut self) -> u16 {
            self.next(2) as u16
        }
        fn u32(&mut self) -> u32 {
            self.next(4) as u32
        }
        fn u64(&mut self) -> u64 {
            self.next(8)
        }
        fn usize(&mut self) -> usize {
            self.next(8) as usize
        }
        fn bool(&mut self) -> bool {
            self.next(1) & 1 != 0
        }
        fn char(&mut self) -> char {
            match char::from_u32(self.next(4) as u32) {
                Some(c) => c,
                None => {
                    self.rejected = true;
                    '\0'
                }
            }
        }
        fn below(&mut self, n: u8) -> u8 {
            let v = self.next(1) as u8;
            if v >= n {
                self.rejected = true;
                return 0;
            }
            v
        }
        fn fail(&mut self, name: &'static str) {
            self.failed.push(name);
        }
        fn reject(&mut self) {
            self.rejected = true;
        }
        fn covered(&mut self, name: &'static str) {
            self.covered.push(name);
        }
    }

    /// Seeded xorshift source that also records what it produced, so that a hit can
    /// be written out as a replay file.
    pub struct RandSrc {
        pub state: u64,
        pub rec: Vec<Vec<u8>>,
        pub failed: Vec<&'static str>,
        pub rejected: bool,
    }

    impl RandSrc {
        pub fn new(seed: u64) -> Self {
            RandSrc { state: seed.wrapping_mul(0x9E37_79B9_7F4A_7C15) | 1, rec: Vec::new(), failed: Vec::new(), rejected: false }
        }
        pub fn reset(&mut self) {
            self.rec.clear();
            self.failed.clear();
            self.rejected = false;
        }
        fn raw(&mut self) -> u64 {
            let mut x = self.state;
            x ^= x << 13;
            x ^= x >> 7;
            x ^= x << 17;
            self.state = x;
            x.wrapping_mul(0x2545_F491_4F6C_DD1D)
        }
        /// biased towards structured values: small numbers, single bits, all-ones
        fn shaped(&mut self, bits: u32) -> u64 {
            let r = self.raw();
            let mask = if bits >= 64 { u64::MAX } else { (1u64 << bits) - 1 };
            let v = match r & 7 {
                0 => (r >> 8) & 0xff,
                1 => 1u64 << ((r >> 8) % bits as u64),
                2 => mask,
                3 => (1u64 << ((r >> 8) % bits as u64)) | (1u64 << ((r >> 16) % bits as u64)),
                _ => r >> 3 ^ self.raw(),
            };
            v & mask
        }
        fn push(&mut self, v: u64, n: usize) -> u64 {
            self.rec.push(v.to_le_bytes()[..n].to_vec());
            v
        }
    }

    impl Src for RandSrc {
        fn u8(&mut self) -> u8 {
            let v = self.shaped(8);
            self.push(v, 1) as u8
        }
        fn u16(&mut self) -> u16 {
            let v = self.shaped(16);
            self.push(v, 2) as u16
        }
        fn u32(&mut self) -> u32 {
            let v = self.shaped(32);
            self.push(v, 4) as u32
        }
        fn u64(&mut self) -> u64 {
            let v = self.shaped(64);
            self.push(v, 8)
        }
        fn usize(&mut self) -> usize {
            let v = self.shaped(64);
            self.push(v, 8) as usize
        }
        fn bool(&mut self) -> bool {
            let v = self.raw() >> 63;
            self.push(v, 1) != 0
        }
        fn char(&mut self) -> char {
            loop {
                let r = self.raw();
                let v = if r & 3 == 0 { (r >> 8) % 0x11_0000 } else { (r >> 8) % 0x80 };
                if let Some(c) = char::from_u32(v as u32) {
                    self.push(v, 4);
                    return c;
                }
            }
        }
        fn below(&mut self, n: u8) -> u8 {
            let v = (self.raw() >> 32) % (n as u64);
            self.push(v, 1) as u8
        }
        fn fail(&mut self, name: &'static str) {
            self.failed.push(name);
        }
        fn reject(&mut self) {
            self.rejected = true;
        }
        fn covered(&mut self, _name: &'static str) {}
    }

    /// Exhaustive odometer source: every draw is one digit whose domain is the whole type
    /// when that is small (bool, u8, below(n), u16, char) and a fixed list of structured
    /// values otherwise (u32 / u64 / usize: 0, small integers, single bits, all-ones, the 52
    /// card words, flagged and one-bit-corrupted card words). `advance()` steps to the next
    /// combination; the sweep is complete when it returns false.
    pub struct SweepSrc {
        pub digits: Vec<(u64, u64)>, // (current index, domain size)
        pub pos: usize,
        pub rec: Vec<Vec<u8>>,
        pub failed: Vec<&'static str>,
        pub rejected: bool,
        pub words32: Vec<u32>,
        pub words64: Vec<u64>,
    }

    impl SweepSrc {
        pub fn new() -> Self {
            let mut w32: Vec<u32> = Vec::new();
            for v in 0..8u32 {
                w32.push(v);
            }
            for b in 0..32 {
                w32.push(1u32 << b);
                w32.push((1u32 << b).wrapping_sub(1));
            }
            w32.push(u32::MAX);
            w32.push(7462);
            w32.push(7463);
            let primes = [2u32, 3, 5, 7, 11, 13, 17, 19, 23, 29, 31, 37, 41];
            for r in 0..13u32 {
                for su in 0..4u32 {
                    let c = primes[r as usize] | (r << 8) | (1 << (12 + su)) | (1 << (16 + r));
                    w32.push(c);
                    w32.push(c | (1 << 29));
                    w32.push(c | (1 << 31));
                    w32.push(c ^ 1);
                    w32.push(c ^ (1 << 12));
                }
            }
            w32.sort_unstable();
            w32.dedup();
            let mut w64: Vec<u64> = Vec::new();
            for v in 0..4u64 {
                w64.push(v);
            }
            for b in 0..64 {
                w64.push(1u64 << b);
                w64.push((1u64 << b).wrapping_sub(1));
                w64.push((1u64 << b) | 1);
                w64.push((1u64 << b) | (1u64 << 51));
                w64.push((1u64 << b) | (1u64 << 52));
            }
            w64.push(u64::MAX);
            w64.push(47);
            w64.push(48);
            w64.push(104553157);
            w64.push(104553158);
            w64.push(115856201);
            w64.sort_unstable();
            w64.dedup();
            SweepSrc { digits: Vec::new(), pos: 0, rec: Vec::new(), failed: Vec::new(), rejected: false, words32: w32, words64: w64 }
        }
        pub fn reset(&mut self) {
            self.pos = 0;
            self.rec.clear();
            self.failed.clear();
            self.rejected = false;
        }
        /// total number of combinations with the digits seen so far
        pub fn size(&self) -> f64 {
            self.digits.iter().map(|d| d.1 as f64).product()
        }
        /// next combination; false when the odometer wrapped around
        pub fn advance(&mut self) -> bool {
            // digits drawn later vary fastest
            let mut i = self.digits.len();
            while i > 0 {
                i -= 1;
                self.digits[i].0 += 1;
                if self.digits[i].0 < self.digits[i].1 {
                    return true;
                }
                self.digits[i].0 = 0;
            }
            false
        }
        fn digit(&mut self, domain: u64) -> u64 {
            if self.pos >= self.digits.len() {
                self.digits.push((0, domain));
            }
            let d = &mut self.digits[self.pos];
            if d.1 != domain {
                // data-dependent draw order: keep the first domain seen, clamp
                d.1 = domain.max(d.1);
            }
            let v = d.0.min(domain - 1);
            self.pos += 1;
            v
        }
        fn push(&mut self, v: u64, n: usize) -> u64 {
            self.rec.push(v.to_le_bytes()[..n].to_vec());
            v
        }
    }

    impl Src for SweepSrc {
        fn u8(&mut self) -> u8 {
            let v = self.digit(256);
            self.push(v, 1) as u8
        }
        fn u16(&mut self) -> u16 {
            let v = self.digit(65536);
            self.push(v, 2) as u16
        }
        fn u32(&mut self) -> u32 {
            let n = self.words32.len() as u64;
            let i = self.digit(n);
            let v = self.words32[i as usize] as u64;
            self.push(v, 4) as u32
        }
        fn u64(&mut self) -> u64 {
            let n = self.words64.len() as u64;
            let i = self.digit(n);
            let v = self.words64[i as usize];
            self.push(v, 8)
        }
        fn usize(&mut self) -> usize {
            let n = self.words64.len() as u64;
            let i = self.digit(n);
            let v = self.words64[i as usize];
            self.push(v, 8) as usize
        }
        fn bool(&mut self) -> bool {
            let v = self.digit(2);
            self.push(v, 1) != 0
        }
        fn char(&mut self) -> char {
            let v = self.digit(0x11_0000);
            match char::from_u32(v as u32) {
                Some(c) => {
                    self.push(v, 4);
                    c
                }
                None => {
                    self.push(0, 4);
                    self.rejected = true;
                    '\0'
                }
            }
        }
        fn below(&mut self, n: u8) -> u8 {
            let v = self.digit(n as u64);
            self.push(v, 1) as u8
        }
        fn fail(&mut self, name: &'static str) {
            if !self.rejected {
                self.failed.push(name);
            }
        }
        fn reject(&mut self) {
            self.rejected = true;
        }
        fn covered(&mut self, _name: &'static str) {}
    }
}
