//! Contracts for ContractBridge/ckc-rs, in harness form (DESIGN.md section 3.1):
//! every `ob::cXX::<name>` is one obligation = precondition (assume!), a call of the
//! REAL function from /repo, and the postcondition (check!) taken from the property
//! statement. Under Kani the inputs are fully symbolic and CBMC discharges the
//! obligation for all of them; natively the same body replays a counterexample.
#![allow(clippy::all)]

#[macro_use]
pub mod src;
pub mod ob;
pub mod spec;
pub mod stubs;

#[cfg(kani)]
mod kani_gen;

pub mod dispatch_gen;
