// GENERATED from /verif/obligations.json by vlib/registry.py - do not edit.
// One #[kani::proof] wrapper per obligation: the obligation body with symbolic draws.
#![allow(unused_imports)]
use crate::src::KaniSrc;

#[kani::proof]
pub fn k_c10_filter_exact() {
    crate::ob::c10::filter_exact(&mut KaniSrc);
}

#[kani::proof]
pub fn k_c10_constants() {
    crate::ob::c10::constants(&mut KaniSrc);
}

#[kani::proof]
pub fn k_c10_create() {
    crate::ob::c10::create(&mut KaniSrc);
}

#[kani::proof]
pub fn k_c10_accessors() {
    crate::ob::c10::accessors(&mut KaniSrc);
}

