// GENERATED from /verif/obligations.json by vlib/registry.py - do not edit.
// One #[kani::proof] wrapper per obligation: the obligation body with symbolic draws.
#![allow(unused_imports)]
use crate::src::KaniSrc;

#[kani::proof]
pub fn k_c10_filter_exact() {
    crate::ob::c10::filter_exact(&mut KaniSrc);
}

#[kani::proof]
pub fn k_c10_filter_exact_playback() {
    unsafe { crate::src::REACH_OFF = true; }
    crate::ob::c10::filter_exact(&mut KaniSrc);
}

#[kani::proof]
pub fn k_c10_constants() {
    crate::ob::c10::constants(&mut KaniSrc);
}

#[kani::proof]
pub fn k_c10_constants_playback() {
    unsafe { crate::src::REACH_OFF = true; }
    crate::ob::c10::constants(&mut KaniSrc);
}

#[kani::proof]
pub fn k_c10_create() {
    crate::ob::c10::create(&mut KaniSrc);
}

#[kani::proof]
pub fn k_c10_create_playback() {
    unsafe { crate::src::REACH_OFF = true; }
    crate::ob::c10::create(&mut KaniSrc);
}

#[kani::proof]
pub fn k_c10_accessors() {
    crate::ob::c10::accessors(&mut KaniSrc);
}

#[kani::proof]
pub fn k_c10_accessors_playback() {
    unsafe { crate::src::REACH_OFF = true; }
    crate::ob::c10::accessors(&mut KaniSrc);
}

#[kani::proof]
#[kani::unwind(5)]
pub fn k_c20_flags() {
    crate::ob::c20::flags(&mut KaniSrc);
}

#[kani::proof]
#[kani::unwind(5)]
pub fn k_c20_flags_playback() {
    unsafe { crate::src::REACH_OFF = true; }
    crate::ob::c20::flags(&mut KaniSrc);
}

#[kani::proof]
#[kani::unwind(5)]
pub fn k_c20_order() {
    crate::ob::c20::order(&mut KaniSrc);
}

#[kani::proof]
#[kani::unwind(5)]
pub fn k_c20_order_playback() {
    unsafe { crate::src::REACH_OFF = true; }
    crate::ob::c20::order(&mut KaniSrc);
}

#[kani::proof]
pub fn k_c11_card_order() {
    crate::ob::c11::card_order(&mut KaniSrc);
}

#[kani::proof]
pub fn k_c11_card_order_playback() {
    unsafe { crate::src::REACH_OFF = true; }
    crate::ob::c11::card_order(&mut KaniSrc);
}

#[kani::proof]
#[kani::unwind(11)]
pub fn k_c11_sort_2() {
    crate::ob::c11::sort_2(&mut KaniSrc);
}

#[kani::proof]
#[kani::unwind(11)]
pub fn k_c11_sort_2_playback() {
    unsafe { crate::src::REACH_OFF = true; }
    crate::ob::c11::sort_2(&mut KaniSrc);
}

#[kani::proof]
#[kani::unwind(15)]
pub fn k_c11_sort_3() {
    crate::ob::c11::sort_3(&mut KaniSrc);
}

#[kani::proof]
#[kani::unwind(15)]
pub fn k_c11_sort_3_playback() {
    unsafe { crate::src::REACH_OFF = true; }
    crate::ob::c11::sort_3(&mut KaniSrc);
}

#[kani::proof]
#[kani::unwind(19)]
pub fn k_c11_sort_4() {
    crate::ob::c11::sort_4(&mut KaniSrc);
}

#[kani::proof]
#[kani::unwind(19)]
pub fn k_c11_sort_4_playback() {
    unsafe { crate::src::REACH_OFF = true; }
    crate::ob::c11::sort_4(&mut KaniSrc);
}

#[kani::proof]
#[kani::unwind(23)]
pub fn k_c11_sort_5() {
    crate::ob::c11::sort_5(&mut KaniSrc);
}

#[kani::proof]
#[kani::unwind(23)]
pub fn k_c11_sort_5_playback() {
    unsafe { crate::src::REACH_OFF = true; }
    crate::ob::c11::sort_5(&mut KaniSrc);
}

#[kani::proof]
#[kani::unwind(27)]
pub fn k_c11_sort_6() {
    crate::ob::c11::sort_6(&mut KaniSrc);
}

#[kani::proof]
#[kani::unwind(27)]
pub fn k_c11_sort_6_playback() {
    unsafe { crate::src::REACH_OFF = true; }
    crate::ob::c11::sort_6(&mut KaniSrc);
}

#[kani::proof]
#[kani::unwind(31)]
pub fn k_c11_sort_7() {
    crate::ob::c11::sort_7(&mut KaniSrc);
}

#[kani::proof]
#[kani::unwind(31)]
pub fn k_c11_sort_7_playback() {
    unsafe { crate::src::REACH_OFF = true; }
    crate::ob::c11::sort_7(&mut KaniSrc);
}

#[kani::proof]
#[kani::unwind(11)]
pub fn k_c19_two() {
    crate::ob::c19::two(&mut KaniSrc);
}

#[kani::proof]
#[kani::unwind(11)]
pub fn k_c19_two_playback() {
    unsafe { crate::src::REACH_OFF = true; }
    crate::ob::c19::two(&mut KaniSrc);
}

#[kani::proof]
#[kani::unwind(15)]
pub fn k_c19_three() {
    crate::ob::c19::three(&mut KaniSrc);
}

#[kani::proof]
#[kani::unwind(15)]
pub fn k_c19_three_playback() {
    unsafe { crate::src::REACH_OFF = true; }
    crate::ob::c19::three(&mut KaniSrc);
}

#[kani::proof]
#[kani::unwind(19)]
pub fn k_c19_four() {
    crate::ob::c19::four(&mut KaniSrc);
}

#[kani::proof]
#[kani::unwind(19)]
pub fn k_c19_four_playback() {
    unsafe { crate::src::REACH_OFF = true; }
    crate::ob::c19::four(&mut KaniSrc);
}

#[kani::proof]
#[kani::unwind(23)]
pub fn k_c19_five() {
    crate::ob::c19::five(&mut KaniSrc);
}

#[kani::proof]
#[kani::unwind(23)]
pub fn k_c19_five_playback() {
    unsafe { crate::src::REACH_OFF = true; }
    crate::ob::c19::five(&mut KaniSrc);
}

#[kani::proof]
#[kani::unwind(27)]
pub fn k_c19_six() {
    crate::ob::c19::six(&mut KaniSrc);
}

#[kani::proof]
#[kani::unwind(27)]
pub fn k_c19_six_playback() {
    unsafe { crate::src::REACH_OFF = true; }
    crate::ob::c19::six(&mut KaniSrc);
}

#[kani::proof]
#[kani::unwind(31)]
pub fn k_c19_seven() {
    crate::ob::c19::seven(&mut KaniSrc);
}

#[kani::proof]
#[kani::unwind(31)]
pub fn k_c19_seven_playback() {
    unsafe { crate::src::REACH_OFF = true; }
    crate::ob::c19::seven(&mut KaniSrc);
}

#[kani::proof]
#[kani::unwind(31)]
pub fn k_c19_seven_two_writes() {
    crate::ob::c19::seven_two_writes(&mut KaniSrc);
}

#[kani::proof]
#[kani::unwind(31)]
pub fn k_c19_seven_two_writes_playback() {
    unsafe { crate::src::REACH_OFF = true; }
    crate::ob::c19::seven_two_writes(&mut KaniSrc);
}

#[kani::proof]
pub fn k_c14_from_ckc() {
    crate::ob::c14::from_ckc(&mut KaniSrc);
}

#[kani::proof]
pub fn k_c14_from_ckc_playback() {
    unsafe { crate::src::REACH_OFF = true; }
    crate::ob::c14::from_ckc(&mut KaniSrc);
}

#[kani::proof]
pub fn k_c14_from_binary_card() {
    crate::ob::c14::from_binary_card(&mut KaniSrc);
}

#[kani::proof]
pub fn k_c14_from_binary_card_playback() {
    unsafe { crate::src::REACH_OFF = true; }
    crate::ob::c14::from_binary_card(&mut KaniSrc);
}

#[kani::proof]
pub fn k_c14_round_trip() {
    crate::ob::c14::round_trip(&mut KaniSrc);
}

#[kani::proof]
pub fn k_c14_round_trip_playback() {
    unsafe { crate::src::REACH_OFF = true; }
    crate::ob::c14::round_trip(&mut KaniSrc);
}

#[kani::proof]
#[kani::unwind(4)]
pub fn k_c15_from_2() {
    crate::ob::c15::from_2(&mut KaniSrc);
}

#[kani::proof]
#[kani::unwind(4)]
pub fn k_c15_from_2_playback() {
    unsafe { crate::src::REACH_OFF = true; }
    crate::ob::c15::from_2(&mut KaniSrc);
}

#[kani::proof]
#[kani::unwind(4)]
pub fn k_c15_count_2() {
    crate::ob::c15::count_2(&mut KaniSrc);
}

#[kani::proof]
#[kani::unwind(4)]
pub fn k_c15_count_2_playback() {
    unsafe { crate::src::REACH_OFF = true; }
    crate::ob::c15::count_2(&mut KaniSrc);
}

#[kani::proof]
#[kani::unwind(5)]
pub fn k_c15_from_3() {
    crate::ob::c15::from_3(&mut KaniSrc);
}

#[kani::proof]
#[kani::unwind(5)]
pub fn k_c15_from_3_playback() {
    unsafe { crate::src::REACH_OFF = true; }
    crate::ob::c15::from_3(&mut KaniSrc);
}

#[kani::proof]
#[kani::unwind(5)]
pub fn k_c15_count_3() {
    crate::ob::c15::count_3(&mut KaniSrc);
}

#[kani::proof]
#[kani::unwind(5)]
pub fn k_c15_count_3_playback() {
    unsafe { crate::src::REACH_OFF = true; }
    crate::ob::c15::count_3(&mut KaniSrc);
}

#[kani::proof]
#[kani::unwind(6)]
pub fn k_c15_from_4() {
    crate::ob::c15::from_4(&mut KaniSrc);
}

#[kani::proof]
#[kani::unwind(6)]
pub fn k_c15_from_4_playback() {
    unsafe { crate::src::REACH_OFF = true; }
    crate::ob::c15::from_4(&mut KaniSrc);
}

#[kani::proof]
#[kani::unwind(6)]
pub fn k_c15_count_4() {
    crate::ob::c15::count_4(&mut KaniSrc);
}

#[kani::proof]
#[kani::unwind(6)]
pub fn k_c15_count_4_playback() {
    unsafe { crate::src::REACH_OFF = true; }
    crate::ob::c15::count_4(&mut KaniSrc);
}

#[kani::proof]
#[kani::unwind(7)]
pub fn k_c15_from_5() {
    crate::ob::c15::from_5(&mut KaniSrc);
}

#[kani::proof]
#[kani::unwind(7)]
pub fn k_c15_from_5_playback() {
    unsafe { crate::src::REACH_OFF = true; }
    crate::ob::c15::from_5(&mut KaniSrc);
}

#[kani::proof]
#[kani::unwind(7)]
pub fn k_c15_count_5() {
    crate::ob::c15::count_5(&mut KaniSrc);
}

#[kani::proof]
#[kani::unwind(7)]
pub fn k_c15_count_5_playback() {
    unsafe { crate::src::REACH_OFF = true; }
    crate::ob::c15::count_5(&mut KaniSrc);
}

#[kani::proof]
#[kani::unwind(8)]
pub fn k_c15_from_6() {
    crate::ob::c15::from_6(&mut KaniSrc);
}

#[kani::proof]
#[kani::unwind(8)]
pub fn k_c15_from_6_playback() {
    unsafe { crate::src::REACH_OFF = true; }
    crate::ob::c15::from_6(&mut KaniSrc);
}

#[kani::proof]
#[kani::unwind(9)]
pub fn k_c15_from_7() {
    crate::ob::c15::from_7(&mut KaniSrc);
}

#[kani::proof]
#[kani::unwind(9)]
pub fn k_c15_from_7_playback() {
    unsafe { crate::src::REACH_OFF = true; }
    crate::ob::c15::from_7(&mut KaniSrc);
}

#[kani::proof]
#[kani::unwind(66)]
pub fn k_c15_set_ops() {
    crate::ob::c15::set_ops(&mut KaniSrc);
}

#[kani::proof]
#[kani::unwind(66)]
pub fn k_c15_set_ops_playback() {
    unsafe { crate::src::REACH_OFF = true; }
    crate::ob::c15::set_ops(&mut KaniSrc);
}

#[kani::proof]
#[kani::unwind(66)]
pub fn k_c15_peel() {
    crate::ob::c15::peel(&mut KaniSrc);
}

#[kani::proof]
#[kani::unwind(66)]
pub fn k_c15_peel_playback() {
    unsafe { crate::src::REACH_OFF = true; }
    crate::ob::c15::peel(&mut KaniSrc);
}

#[kani::proof]
#[kani::unwind(66)]
pub fn k_c15_peel_twice() {
    crate::ob::c15::peel_twice(&mut KaniSrc);
}

#[kani::proof]
#[kani::unwind(66)]
pub fn k_c15_peel_twice_playback() {
    unsafe { crate::src::REACH_OFF = true; }
    crate::ob::c15::peel_twice(&mut KaniSrc);
}

#[kani::proof]
#[kani::unwind(66)]
pub fn k_c16_try_from() {
    crate::ob::c16::try_from(&mut KaniSrc);
}

#[kani::proof]
#[kani::unwind(66)]
pub fn k_c16_try_from_playback() {
    unsafe { crate::src::REACH_OFF = true; }
    crate::ob::c16::try_from(&mut KaniSrc);
}

#[kani::proof]
#[kani::unwind(5)]
pub fn k_c17_chen() {
    crate::ob::c17::chen_formula(&mut KaniSrc);
}

#[kani::proof]
#[kani::unwind(5)]
pub fn k_c17_chen_playback() {
    unsafe { crate::src::REACH_OFF = true; }
    crate::ob::c17::chen_formula(&mut KaniSrc);
}

#[kani::proof]
pub fn k_c17_chen_points() {
    crate::ob::c17::chen_points(&mut KaniSrc);
}

#[kani::proof]
pub fn k_c17_chen_points_playback() {
    unsafe { crate::src::REACH_OFF = true; }
    crate::ob::c17::chen_points(&mut KaniSrc);
}

#[kani::proof]
pub fn k_c18_deck() {
    crate::ob::c18::deck(&mut KaniSrc);
}

#[kani::proof]
pub fn k_c18_deck_playback() {
    unsafe { crate::src::REACH_OFF = true; }
    crate::ob::c18::deck(&mut KaniSrc);
}

#[kani::proof]
#[kani::unwind(18)]
pub fn k_c18_presets() {
    crate::ob::c18::presets(&mut KaniSrc);
}

#[kani::proof]
#[kani::unwind(18)]
pub fn k_c18_presets_playback() {
    unsafe { crate::src::REACH_OFF = true; }
    crate::ob::c18::presets(&mut KaniSrc);
}

#[kani::proof]
#[kani::unwind(23)]
pub fn k_c18_slot_tables() {
    crate::ob::c18::slot_tables(&mut KaniSrc);
}

#[kani::proof]
#[kani::unwind(23)]
pub fn k_c18_slot_tables_playback() {
    unsafe { crate::src::REACH_OFF = true; }
    crate::ob::c18::slot_tables(&mut KaniSrc);
}

#[kani::proof]
#[kani::unwind(7)]
pub fn k_c13_predicates() {
    crate::ob::c13::predicates(&mut KaniSrc);
}

#[kani::proof]
#[kani::unwind(7)]
pub fn k_c13_predicates_playback() {
    unsafe { crate::src::REACH_OFF = true; }
    crate::ob::c13::predicates(&mut KaniSrc);
}

#[kani::proof]
#[kani::unwind(12)]
pub fn k_c06_name_class_all() {
    crate::ob::c06::name_class_all(&mut KaniSrc);
}

#[kani::proof]
#[kani::unwind(12)]
pub fn k_c06_name_class_all_playback() {
    unsafe { crate::src::REACH_OFF = true; }
    crate::ob::c06::name_class_all(&mut KaniSrc);
}

#[kani::proof]
pub fn k_c06_class_ranges() {
    crate::ob::c06::class_ranges(&mut KaniSrc);
}

#[kani::proof]
pub fn k_c06_class_ranges_playback() {
    unsafe { crate::src::REACH_OFF = true; }
    crate::ob::c06::class_ranges(&mut KaniSrc);
}

#[kani::proof]
pub fn k_c06_class_table_order() {
    crate::ob::c06::class_table_order(&mut KaniSrc);
}

#[kani::proof]
pub fn k_c06_class_table_order_playback() {
    unsafe { crate::src::REACH_OFF = true; }
    crate::ob::c06::class_table_order(&mut KaniSrc);
}

#[kani::proof]
pub fn k_c07_pair_laws() {
    crate::ob::c07::pair_laws(&mut KaniSrc);
}

#[kani::proof]
pub fn k_c07_pair_laws_playback() {
    unsafe { crate::src::REACH_OFF = true; }
    crate::ob::c07::pair_laws(&mut KaniSrc);
}

#[kani::proof]
pub fn k_c07_transitive() {
    crate::ob::c07::transitive(&mut KaniSrc);
}

#[kani::proof]
pub fn k_c07_transitive_playback() {
    unsafe { crate::src::REACH_OFF = true; }
    crate::ob::c07::transitive(&mut KaniSrc);
}

#[kani::proof]
pub fn k_c07_enum_monotone() {
    crate::ob::c07::enum_monotone(&mut KaniSrc);
}

#[kani::proof]
pub fn k_c07_enum_monotone_playback() {
    unsafe { crate::src::REACH_OFF = true; }
    crate::ob::c07::enum_monotone(&mut KaniSrc);
}

#[kani::proof]
pub fn k_c08_card_cycle() {
    crate::ob::c08::card_cycle(&mut KaniSrc);
}

#[kani::proof]
pub fn k_c08_card_cycle_playback() {
    unsafe { crate::src::REACH_OFF = true; }
    crate::ob::c08::card_cycle(&mut KaniSrc);
}

#[kani::proof]
#[kani::unwind(4)]
pub fn k_c08_slotwise_2() {
    crate::ob::c08::slotwise_2(&mut KaniSrc);
}

#[kani::proof]
#[kani::unwind(4)]
pub fn k_c08_slotwise_2_playback() {
    unsafe { crate::src::REACH_OFF = true; }
    crate::ob::c08::slotwise_2(&mut KaniSrc);
}

#[kani::proof]
#[kani::unwind(5)]
pub fn k_c08_slotwise_3() {
    crate::ob::c08::slotwise_3(&mut KaniSrc);
}

#[kani::proof]
#[kani::unwind(5)]
pub fn k_c08_slotwise_3_playback() {
    unsafe { crate::src::REACH_OFF = true; }
    crate::ob::c08::slotwise_3(&mut KaniSrc);
}

#[kani::proof]
#[kani::unwind(6)]
pub fn k_c08_slotwise_4() {
    crate::ob::c08::slotwise_4(&mut KaniSrc);
}

#[kani::proof]
#[kani::unwind(6)]
pub fn k_c08_slotwise_4_playback() {
    unsafe { crate::src::REACH_OFF = true; }
    crate::ob::c08::slotwise_4(&mut KaniSrc);
}

#[kani::proof]
#[kani::unwind(7)]
pub fn k_c08_slotwise_5() {
    crate::ob::c08::slotwise_5(&mut KaniSrc);
}

#[kani::proof]
#[kani::unwind(7)]
pub fn k_c08_slotwise_5_playback() {
    unsafe { crate::src::REACH_OFF = true; }
    crate::ob::c08::slotwise_5(&mut KaniSrc);
}

#[kani::proof]
#[kani::unwind(8)]
pub fn k_c08_slotwise_6() {
    crate::ob::c08::slotwise_6(&mut KaniSrc);
}

#[kani::proof]
#[kani::unwind(8)]
pub fn k_c08_slotwise_6_playback() {
    unsafe { crate::src::REACH_OFF = true; }
    crate::ob::c08::slotwise_6(&mut KaniSrc);
}

#[kani::proof]
#[kani::unwind(9)]
pub fn k_c08_slotwise_7() {
    crate::ob::c08::slotwise_7(&mut KaniSrc);
}

#[kani::proof]
#[kani::unwind(9)]
pub fn k_c08_slotwise_7_playback() {
    unsafe { crate::src::REACH_OFF = true; }
    crate::ob::c08::slotwise_7(&mut KaniSrc);
}

#[kani::proof]
#[kani::unwind(7)]
pub fn k_c08_five_triple() {
    crate::ob::c08::five_triple(&mut KaniSrc);
}

#[kani::proof]
#[kani::unwind(7)]
pub fn k_c08_five_triple_playback() {
    unsafe { crate::src::REACH_OFF = true; }
    crate::ob::c08::five_triple(&mut KaniSrc);
}

#[kani::proof]
#[kani::unwind(5)]
pub fn k_c04_valid_2() {
    crate::ob::c04::valid_2(&mut KaniSrc);
}

#[kani::proof]
#[kani::unwind(5)]
pub fn k_c04_valid_2_playback() {
    unsafe { crate::src::REACH_OFF = true; }
    crate::ob::c04::valid_2(&mut KaniSrc);
}

#[kani::proof]
#[kani::unwind(6)]
pub fn k_c04_valid_3() {
    crate::ob::c04::valid_3(&mut KaniSrc);
}

#[kani::proof]
#[kani::unwind(6)]
pub fn k_c04_valid_3_playback() {
    unsafe { crate::src::REACH_OFF = true; }
    crate::ob::c04::valid_3(&mut KaniSrc);
}

#[kani::proof]
#[kani::unwind(7)]
pub fn k_c04_valid_4() {
    crate::ob::c04::valid_4(&mut KaniSrc);
}

#[kani::proof]
#[kani::unwind(7)]
pub fn k_c04_valid_4_playback() {
    unsafe { crate::src::REACH_OFF = true; }
    crate::ob::c04::valid_4(&mut KaniSrc);
}

#[kani::proof]
#[kani::unwind(8)]
pub fn k_c04_valid_5() {
    crate::ob::c04::valid_5(&mut KaniSrc);
}

#[kani::proof]
#[kani::unwind(8)]
pub fn k_c04_valid_5_playback() {
    unsafe { crate::src::REACH_OFF = true; }
    crate::ob::c04::valid_5(&mut KaniSrc);
}

#[kani::proof]
#[kani::unwind(9)]
pub fn k_c04_valid_6() {
    crate::ob::c04::valid_6(&mut KaniSrc);
}

#[kani::proof]
#[kani::unwind(9)]
pub fn k_c04_valid_6_playback() {
    unsafe { crate::src::REACH_OFF = true; }
    crate::ob::c04::valid_6(&mut KaniSrc);
}

#[kani::proof]
#[kani::unwind(10)]
pub fn k_c04_valid_7() {
    crate::ob::c04::valid_7(&mut KaniSrc);
}

#[kani::proof]
#[kani::unwind(10)]
pub fn k_c04_valid_7_playback() {
    unsafe { crate::src::REACH_OFF = true; }
    crate::ob::c04::valid_7(&mut KaniSrc);
}

#[kani::proof]
pub fn k_c12_rank_char() {
    crate::ob::c12::rank_char(&mut KaniSrc);
}

#[kani::proof]
pub fn k_c12_rank_char_playback() {
    unsafe { crate::src::REACH_OFF = true; }
    crate::ob::c12::rank_char(&mut KaniSrc);
}

#[kani::proof]
pub fn k_c12_suit_char() {
    crate::ob::c12::suit_char(&mut KaniSrc);
}

#[kani::proof]
pub fn k_c12_suit_char_playback() {
    unsafe { crate::src::REACH_OFF = true; }
    crate::ob::c12::suit_char(&mut KaniSrc);
}

#[kani::proof]
#[kani::unwind(6)]
pub fn k_c12_render_parse() {
    crate::ob::c12::render_parse(&mut KaniSrc);
}

#[kani::proof]
#[kani::unwind(6)]
pub fn k_c12_render_parse_playback() {
    unsafe { crate::src::REACH_OFF = true; }
    crate::ob::c12::render_parse(&mut KaniSrc);
}

#[kani::proof]
#[kani::unwind(6)]
pub fn k_c12_two_chars() {
    crate::ob::c12::two_chars(&mut KaniSrc);
}

#[kani::proof]
#[kani::unwind(6)]
pub fn k_c12_two_chars_playback() {
    unsafe { crate::src::REACH_OFF = true; }
    crate::ob::c12::two_chars(&mut KaniSrc);
}

#[kani::proof]
#[kani::unwind(6)]
pub fn k_c12_short_tokens() {
    crate::ob::c12::short_tokens(&mut KaniSrc);
}

#[kani::proof]
#[kani::unwind(6)]
pub fn k_c12_short_tokens_playback() {
    unsafe { crate::src::REACH_OFF = true; }
    crate::ob::c12::short_tokens(&mut KaniSrc);
}

#[kani::proof]
pub fn k_c05_products_floor() {
    crate::ob::c05::products_floor(&mut KaniSrc);
}

#[kani::proof]
pub fn k_c05_products_floor_playback() {
    unsafe { crate::src::REACH_OFF = true; }
    crate::ob::c05::products_floor(&mut KaniSrc);
}

#[kani::proof]
#[kani::unwind(9)]
#[kani::stub(ckc_rs::cards::five::Five::find_in_products, crate::stubs::find_in_products_contract)]
pub fn k_c05_five_safe() {
    crate::ob::c05::five_safe(&mut KaniSrc);
}

#[kani::proof]
#[kani::unwind(9)]
#[kani::stub(ckc_rs::cards::five::Five::find_in_products, crate::stubs::find_in_products_contract)]
pub fn k_c05_five_safe_playback() {
    unsafe { crate::src::REACH_OFF = true; }
    crate::ob::c05::five_safe(&mut KaniSrc);
}

#[kani::proof]
#[kani::unwind(9)]
#[kani::stub(ckc_rs::cards::five::Five::find_in_products, crate::stubs::find_in_products_contract)]
pub fn k_c05_blank_five_invalid() {
    crate::ob::c05::blank_five_invalid(&mut KaniSrc);
}

#[kani::proof]
#[kani::unwind(9)]
#[kani::stub(ckc_rs::cards::five::Five::find_in_products, crate::stubs::find_in_products_contract)]
pub fn k_c05_blank_five_invalid_playback() {
    unsafe { crate::src::REACH_OFF = true; }
    crate::ob::c05::blank_five_invalid(&mut KaniSrc);
}

#[kani::proof]
#[kani::unwind(27)]
#[kani::stub(<ckc_rs::cards::five::Five as ckc_rs::cards::HandRanker>::hand_rank_value_and_hand, crate::stubs::five_vh_total)]
pub fn k_c05_six_safe() {
    crate::ob::c05::six_safe(&mut KaniSrc);
}

#[kani::proof]
#[kani::unwind(27)]
#[kani::stub(<ckc_rs::cards::five::Five as ckc_rs::cards::HandRanker>::hand_rank_value_and_hand, crate::stubs::five_vh_total)]
pub fn k_c05_six_safe_playback() {
    unsafe { crate::src::REACH_OFF = true; }
    crate::ob::c05::six_safe(&mut KaniSrc);
}

#[kani::proof]
#[kani::unwind(31)]
#[kani::stub(<ckc_rs::cards::five::Five as ckc_rs::cards::HandRanker>::hand_rank_value_and_hand, crate::stubs::five_vh_total)]
pub fn k_c05_seven_safe() {
    crate::ob::c05::seven_safe(&mut KaniSrc);
}

#[kani::proof]
#[kani::unwind(31)]
#[kani::stub(<ckc_rs::cards::five::Five as ckc_rs::cards::HandRanker>::hand_rank_value_and_hand, crate::stubs::five_vh_total)]
pub fn k_c05_seven_safe_playback() {
    unsafe { crate::src::REACH_OFF = true; }
    crate::ob::c05::seven_safe(&mut KaniSrc);
}

#[kani::proof]
#[kani::unwind(15)]
pub fn k_c05_find_kb() {
    crate::ob::c05::find_kb(&mut KaniSrc);
}

#[kani::proof]
#[kani::unwind(15)]
pub fn k_c05_find_kb_playback() {
    unsafe { crate::src::REACH_OFF = true; }
    crate::ob::c05::find_kb(&mut KaniSrc);
}

#[kani::proof]
#[kani::unwind(7)]
pub fn k_c01_k1() {
    crate::ob::c01::k1(&mut KaniSrc);
}

#[kani::proof]
#[kani::unwind(7)]
pub fn k_c01_k1_playback() {
    unsafe { crate::src::REACH_OFF = true; }
    crate::ob::c01::k1(&mut KaniSrc);
}

#[kani::proof]
#[kani::unwind(7)]
#[kani::stub(ckc_rs::cards::five::Five::find_in_products, crate::stubs::find_in_products_contract)]
pub fn k_c01_k3() {
    crate::ob::c01::k3(&mut KaniSrc);
}

#[kani::proof]
#[kani::unwind(7)]
#[kani::stub(ckc_rs::cards::five::Five::find_in_products, crate::stubs::find_in_products_contract)]
pub fn k_c01_k3_playback() {
    unsafe { crate::src::REACH_OFF = true; }
    crate::ob::c01::k3(&mut KaniSrc);
}

#[kani::proof]
#[kani::unwind(15)]
pub fn k_c01_rep_distinct() {
    crate::ob::c01::rep_distinct(&mut KaniSrc);
}

#[kani::proof]
#[kani::unwind(15)]
pub fn k_c01_rep_distinct_playback() {
    unsafe { crate::src::REACH_OFF = true; }
    crate::ob::c01::rep_distinct(&mut KaniSrc);
}

#[kani::proof]
#[kani::unwind(15)]
pub fn k_c01_rep_quads() {
    crate::ob::c01::rep_quads(&mut KaniSrc);
}

#[kani::proof]
#[kani::unwind(15)]
pub fn k_c01_rep_quads_playback() {
    unsafe { crate::src::REACH_OFF = true; }
    crate::ob::c01::rep_quads(&mut KaniSrc);
}

#[kani::proof]
#[kani::unwind(15)]
pub fn k_c01_rep_full_house() {
    crate::ob::c01::rep_full_house(&mut KaniSrc);
}

#[kani::proof]
#[kani::unwind(15)]
pub fn k_c01_rep_full_house_playback() {
    unsafe { crate::src::REACH_OFF = true; }
    crate::ob::c01::rep_full_house(&mut KaniSrc);
}

#[kani::proof]
#[kani::unwind(15)]
pub fn k_c01_rep_trips() {
    crate::ob::c01::rep_trips(&mut KaniSrc);
}

#[kani::proof]
#[kani::unwind(15)]
pub fn k_c01_rep_trips_playback() {
    unsafe { crate::src::REACH_OFF = true; }
    crate::ob::c01::rep_trips(&mut KaniSrc);
}

#[kani::proof]
#[kani::unwind(15)]
pub fn k_c01_rep_two_pair() {
    crate::ob::c01::rep_two_pair(&mut KaniSrc);
}

#[kani::proof]
#[kani::unwind(15)]
pub fn k_c01_rep_two_pair_playback() {
    unsafe { crate::src::REACH_OFF = true; }
    crate::ob::c01::rep_two_pair(&mut KaniSrc);
}

#[kani::proof]
#[kani::unwind(15)]
pub fn k_c01_rep_pair() {
    crate::ob::c01::rep_pair(&mut KaniSrc);
}

#[kani::proof]
#[kani::unwind(15)]
pub fn k_c01_rep_pair_playback() {
    unsafe { crate::src::REACH_OFF = true; }
    crate::ob::c01::rep_pair(&mut KaniSrc);
}

#[kani::proof]
#[kani::unwind(9)]
#[kani::stub(<ckc_rs::cards::five::Five as ckc_rs::cards::HandRanker>::hand_rank_value_and_hand, crate::stubs::five_vh_fixed)]
pub fn k_c01_entry_points() {
    crate::ob::c01::entry_points(&mut KaniSrc);
}

#[kani::proof]
#[kani::unwind(9)]
#[kani::stub(<ckc_rs::cards::five::Five as ckc_rs::cards::HandRanker>::hand_rank_value_and_hand, crate::stubs::five_vh_fixed)]
pub fn k_c01_entry_points_playback() {
    unsafe { crate::src::REACH_OFF = true; }
    crate::ob::c01::entry_points(&mut KaniSrc);
}

#[kani::proof]
#[kani::unwind(9)]
#[kani::stub(<ckc_rs::cards::five::Five as ckc_rs::cards::HandRanker>::hand_rank_value_and_hand, crate::stubs::five_vh_fixed)]
pub fn k_c04_validated_five() {
    crate::ob::c01::validated_five(&mut KaniSrc);
}

#[kani::proof]
#[kani::unwind(9)]
#[kani::stub(<ckc_rs::cards::five::Five as ckc_rs::cards::HandRanker>::hand_rank_value_and_hand, crate::stubs::five_vh_fixed)]
pub fn k_c04_validated_five_playback() {
    unsafe { crate::src::REACH_OFF = true; }
    crate::ob::c01::validated_five(&mut KaniSrc);
}

#[kani::proof]
#[kani::unwind(15)]
pub fn k_c01_direct_flush() {
    crate::ob::c01::direct_flush(&mut KaniSrc);
}

#[kani::proof]
#[kani::unwind(15)]
pub fn k_c01_direct_flush_playback() {
    unsafe { crate::src::REACH_OFF = true; }
    crate::ob::c01::direct_flush(&mut KaniSrc);
}

#[kani::proof]
#[kani::unwind(15)]
pub fn k_c01_direct_distinct_nonflush() {
    crate::ob::c01::direct_distinct_nonflush(&mut KaniSrc);
}

#[kani::proof]
#[kani::unwind(15)]
pub fn k_c01_direct_distinct_nonflush_playback() {
    unsafe { crate::src::REACH_OFF = true; }
    crate::ob::c01::direct_distinct_nonflush(&mut KaniSrc);
}

#[kani::proof]
#[kani::unwind(15)]
pub fn k_c01_direct_quads() {
    crate::ob::c01::direct_quads(&mut KaniSrc);
}

#[kani::proof]
#[kani::unwind(15)]
pub fn k_c01_direct_quads_playback() {
    unsafe { crate::src::REACH_OFF = true; }
    crate::ob::c01::direct_quads(&mut KaniSrc);
}

#[kani::proof]
#[kani::unwind(15)]
pub fn k_c01_direct_full_house() {
    crate::ob::c01::direct_full_house(&mut KaniSrc);
}

#[kani::proof]
#[kani::unwind(15)]
pub fn k_c01_direct_full_house_playback() {
    unsafe { crate::src::REACH_OFF = true; }
    crate::ob::c01::direct_full_house(&mut KaniSrc);
}

#[kani::proof]
#[kani::unwind(15)]
pub fn k_c01_direct_trips() {
    crate::ob::c01::direct_trips(&mut KaniSrc);
}

#[kani::proof]
#[kani::unwind(15)]
pub fn k_c01_direct_trips_playback() {
    unsafe { crate::src::REACH_OFF = true; }
    crate::ob::c01::direct_trips(&mut KaniSrc);
}

#[kani::proof]
#[kani::unwind(15)]
pub fn k_c01_direct_two_pair() {
    crate::ob::c01::direct_two_pair(&mut KaniSrc);
}

#[kani::proof]
#[kani::unwind(15)]
pub fn k_c01_direct_two_pair_playback() {
    unsafe { crate::src::REACH_OFF = true; }
    crate::ob::c01::direct_two_pair(&mut KaniSrc);
}

#[kani::proof]
#[kani::unwind(15)]
pub fn k_c01_direct_pair_01() {
    crate::ob::c01::direct_pair_01(&mut KaniSrc);
}

#[kani::proof]
#[kani::unwind(15)]
pub fn k_c01_direct_pair_01_playback() {
    unsafe { crate::src::REACH_OFF = true; }
    crate::ob::c01::direct_pair_01(&mut KaniSrc);
}

#[kani::proof]
#[kani::unwind(15)]
pub fn k_c01_direct_pair_02() {
    crate::ob::c01::direct_pair_02(&mut KaniSrc);
}

#[kani::proof]
#[kani::unwind(15)]
pub fn k_c01_direct_pair_02_playback() {
    unsafe { crate::src::REACH_OFF = true; }
    crate::ob::c01::direct_pair_02(&mut KaniSrc);
}

#[kani::proof]
#[kani::unwind(15)]
pub fn k_c01_direct_pair_03() {
    crate::ob::c01::direct_pair_03(&mut KaniSrc);
}

#[kani::proof]
#[kani::unwind(15)]
pub fn k_c01_direct_pair_03_playback() {
    unsafe { crate::src::REACH_OFF = true; }
    crate::ob::c01::direct_pair_03(&mut KaniSrc);
}

#[kani::proof]
#[kani::unwind(15)]
pub fn k_c01_direct_pair_04() {
    crate::ob::c01::direct_pair_04(&mut KaniSrc);
}

#[kani::proof]
#[kani::unwind(15)]
pub fn k_c01_direct_pair_04_playback() {
    unsafe { crate::src::REACH_OFF = true; }
    crate::ob::c01::direct_pair_04(&mut KaniSrc);
}

#[kani::proof]
#[kani::unwind(15)]
pub fn k_c01_direct_pair_12() {
    crate::ob::c01::direct_pair_12(&mut KaniSrc);
}

#[kani::proof]
#[kani::unwind(15)]
pub fn k_c01_direct_pair_12_playback() {
    unsafe { crate::src::REACH_OFF = true; }
    crate::ob::c01::direct_pair_12(&mut KaniSrc);
}

#[kani::proof]
#[kani::unwind(15)]
pub fn k_c01_direct_pair_13() {
    crate::ob::c01::direct_pair_13(&mut KaniSrc);
}

#[kani::proof]
#[kani::unwind(15)]
pub fn k_c01_direct_pair_13_playback() {
    unsafe { crate::src::REACH_OFF = true; }
    crate::ob::c01::direct_pair_13(&mut KaniSrc);
}

#[kani::proof]
#[kani::unwind(15)]
pub fn k_c01_direct_pair_14() {
    crate::ob::c01::direct_pair_14(&mut KaniSrc);
}

#[kani::proof]
#[kani::unwind(15)]
pub fn k_c01_direct_pair_14_playback() {
    unsafe { crate::src::REACH_OFF = true; }
    crate::ob::c01::direct_pair_14(&mut KaniSrc);
}

#[kani::proof]
#[kani::unwind(15)]
pub fn k_c01_direct_pair_23() {
    crate::ob::c01::direct_pair_23(&mut KaniSrc);
}

#[kani::proof]
#[kani::unwind(15)]
pub fn k_c01_direct_pair_23_playback() {
    unsafe { crate::src::REACH_OFF = true; }
    crate::ob::c01::direct_pair_23(&mut KaniSrc);
}

#[kani::proof]
#[kani::unwind(15)]
pub fn k_c01_direct_pair_24() {
    crate::ob::c01::direct_pair_24(&mut KaniSrc);
}

#[kani::proof]
#[kani::unwind(15)]
pub fn k_c01_direct_pair_24_playback() {
    unsafe { crate::src::REACH_OFF = true; }
    crate::ob::c01::direct_pair_24(&mut KaniSrc);
}

#[kani::proof]
#[kani::unwind(15)]
pub fn k_c01_direct_pair_34() {
    crate::ob::c01::direct_pair_34(&mut KaniSrc);
}

#[kani::proof]
#[kani::unwind(15)]
pub fn k_c01_direct_pair_34_playback() {
    unsafe { crate::src::REACH_OFF = true; }
    crate::ob::c01::direct_pair_34(&mut KaniSrc);
}

#[kani::proof]
#[kani::unwind(23)]
#[kani::stub(ckc_rs::cards::five::Five::find_in_products, crate::stubs::find_in_products_contract)]
pub fn k_c03_five_identity() {
    crate::ob::c03::five_identity(&mut KaniSrc);
}

#[kani::proof]
#[kani::unwind(23)]
#[kani::stub(ckc_rs::cards::five::Five::find_in_products, crate::stubs::find_in_products_contract)]
pub fn k_c03_five_identity_playback() {
    unsafe { crate::src::REACH_OFF = true; }
    crate::ob::c03::five_identity(&mut KaniSrc);
}

#[kani::proof]
#[kani::unwind(130)]
#[kani::stub(<ckc_rs::cards::five::Five as ckc_rs::cards::HandRanker>::hand_rank_value_and_hand, crate::stubs::five_vh_ghost_v)]
pub fn k_c03_six_witness() {
    crate::ob::c03::six_witness(&mut KaniSrc);
}

#[kani::proof]
#[kani::unwind(130)]
#[kani::stub(<ckc_rs::cards::five::Five as ckc_rs::cards::HandRanker>::hand_rank_value_and_hand, crate::stubs::five_vh_ghost_v)]
pub fn k_c03_six_witness_playback() {
    unsafe { crate::src::REACH_OFF = true; }
    crate::ob::c03::six_witness(&mut KaniSrc);
}

#[kani::proof]
#[kani::unwind(130)]
#[kani::stub(<ckc_rs::cards::five::Five as ckc_rs::cards::HandRanker>::hand_rank_value_and_hand, crate::stubs::five_vh_ghost_v)]
pub fn k_c03_seven_witness() {
    crate::ob::c03::seven_witness(&mut KaniSrc);
}

#[kani::proof]
#[kani::unwind(130)]
#[kani::stub(<ckc_rs::cards::five::Five as ckc_rs::cards::HandRanker>::hand_rank_value_and_hand, crate::stubs::five_vh_ghost_v)]
pub fn k_c03_seven_witness_playback() {
    unsafe { crate::src::REACH_OFF = true; }
    crate::ob::c03::seven_witness(&mut KaniSrc);
}

#[kani::proof]
#[kani::unwind(130)]
#[kani::stub(<ckc_rs::cards::five::Five as ckc_rs::cards::HandRanker>::hand_rank_value_and_hand, crate::stubs::five_vh_ghost_v)]
pub fn k_c02_six_min() {
    crate::ob::c02::six_min(&mut KaniSrc);
}

#[kani::proof]
#[kani::unwind(130)]
#[kani::stub(<ckc_rs::cards::five::Five as ckc_rs::cards::HandRanker>::hand_rank_value_and_hand, crate::stubs::five_vh_ghost_v)]
pub fn k_c02_six_min_playback() {
    unsafe { crate::src::REACH_OFF = true; }
    crate::ob::c02::six_min(&mut KaniSrc);
}

#[kani::proof]
#[kani::unwind(130)]
#[kani::stub(<ckc_rs::cards::five::Five as ckc_rs::cards::HandRanker>::hand_rank_value_and_hand, crate::stubs::five_vh_ghost_v)]
pub fn k_c02_seven_min() {
    crate::ob::c02::seven_min(&mut KaniSrc);
}

#[kani::proof]
#[kani::unwind(130)]
#[kani::stub(<ckc_rs::cards::five::Five as ckc_rs::cards::HandRanker>::hand_rank_value_and_hand, crate::stubs::five_vh_ghost_v)]
pub fn k_c02_seven_min_playback() {
    unsafe { crate::src::REACH_OFF = true; }
    crate::ob::c02::seven_min(&mut KaniSrc);
}

#[kani::proof]
#[kani::unwind(12)]
#[kani::stub(<ckc_rs::cards::six::Six as ckc_rs::cards::HandRanker>::hand_rank_value_and_hand, crate::stubs::six_vh_fixed)]
pub fn k_c02_six_entry_points() {
    crate::ob::c02::six_entry_points(&mut KaniSrc);
}

#[kani::proof]
#[kani::unwind(12)]
#[kani::stub(<ckc_rs::cards::six::Six as ckc_rs::cards::HandRanker>::hand_rank_value_and_hand, crate::stubs::six_vh_fixed)]
pub fn k_c02_six_entry_points_playback() {
    unsafe { crate::src::REACH_OFF = true; }
    crate::ob::c02::six_entry_points(&mut KaniSrc);
}

#[kani::proof]
#[kani::unwind(12)]
#[kani::stub(<ckc_rs::cards::seven::Seven as ckc_rs::cards::HandRanker>::hand_rank_value_and_hand, crate::stubs::seven_vh_fixed)]
pub fn k_c02_seven_entry_points() {
    crate::ob::c02::seven_entry_points(&mut KaniSrc);
}

#[kani::proof]
#[kani::unwind(12)]
#[kani::stub(<ckc_rs::cards::seven::Seven as ckc_rs::cards::HandRanker>::hand_rank_value_and_hand, crate::stubs::seven_vh_fixed)]
pub fn k_c02_seven_entry_points_playback() {
    unsafe { crate::src::REACH_OFF = true; }
    crate::ob::c02::seven_entry_points(&mut KaniSrc);
}

#[kani::proof]
#[kani::unwind(5)]
#[kani::stub(<ckc_rs::cards::five::Five as ckc_rs::cards::HandRanker>::hand_rank_value_validated, crate::stubs::five_validated_fixed)]
#[kani::stub(<ckc_rs::cards::six::Six as ckc_rs::cards::HandRanker>::hand_rank_value_validated, crate::stubs::six_validated_fixed)]
#[kani::stub(<ckc_rs::cards::seven::Seven as ckc_rs::cards::HandRanker>::hand_rank_value_validated, crate::stubs::seven_validated_fixed)]
pub fn k_c02_validated_rank() {
    crate::ob::c02::validated_rank(&mut KaniSrc);
}

#[kani::proof]
#[kani::unwind(5)]
#[kani::stub(<ckc_rs::cards::five::Five as ckc_rs::cards::HandRanker>::hand_rank_value_validated, crate::stubs::five_validated_fixed)]
#[kani::stub(<ckc_rs::cards::six::Six as ckc_rs::cards::HandRanker>::hand_rank_value_validated, crate::stubs::six_validated_fixed)]
#[kani::stub(<ckc_rs::cards::seven::Seven as ckc_rs::cards::HandRanker>::hand_rank_value_validated, crate::stubs::seven_validated_fixed)]
pub fn k_c02_validated_rank_playback() {
    unsafe { crate::src::REACH_OFF = true; }
    crate::ob::c02::validated_rank(&mut KaniSrc);
}

#[kani::proof]
#[kani::unwind(130)]
pub fn k_c09_min_lemma() {
    crate::ob::c09::min_lemma(&mut KaniSrc);
}

#[kani::proof]
#[kani::unwind(130)]
pub fn k_c09_min_lemma_playback() {
    unsafe { crate::src::REACH_OFF = true; }
    crate::ob::c09::min_lemma(&mut KaniSrc);
}

#[kani::proof]
#[kani::unwind(130)]
#[kani::stub(<ckc_rs::cards::five::Five as ckc_rs::cards::HandRanker>::hand_rank_value_and_hand, crate::stubs::five_vh_ghost_v)]
pub fn k_c09_direct() {
    crate::ob::c09::direct(&mut KaniSrc);
}

#[kani::proof]
#[kani::unwind(130)]
#[kani::stub(<ckc_rs::cards::five::Five as ckc_rs::cards::HandRanker>::hand_rank_value_and_hand, crate::stubs::five_vh_ghost_v)]
pub fn k_c09_direct_playback() {
    unsafe { crate::src::REACH_OFF = true; }
    crate::ob::c09::direct(&mut KaniSrc);
}

#[kani::proof]
#[kani::unwind(130)]
#[kani::stub(<ckc_rs::cards::five::Five as ckc_rs::cards::HandRanker>::hand_rank_value_and_hand, crate::stubs::five_vh_ghost_v)]
pub fn k_c08_six_shift() {
    crate::ob::c08::six_shift(&mut KaniSrc);
}

#[kani::proof]
#[kani::unwind(130)]
#[kani::stub(<ckc_rs::cards::five::Five as ckc_rs::cards::HandRanker>::hand_rank_value_and_hand, crate::stubs::five_vh_ghost_v)]
pub fn k_c08_six_shift_playback() {
    unsafe { crate::src::REACH_OFF = true; }
    crate::ob::c08::six_shift(&mut KaniSrc);
}

#[kani::proof]
#[kani::unwind(130)]
#[kani::stub(<ckc_rs::cards::five::Five as ckc_rs::cards::HandRanker>::hand_rank_value_and_hand, crate::stubs::five_vh_ghost_v)]
pub fn k_c08_seven_shift() {
    crate::ob::c08::seven_shift(&mut KaniSrc);
}

#[kani::proof]
#[kani::unwind(130)]
#[kani::stub(<ckc_rs::cards::five::Five as ckc_rs::cards::HandRanker>::hand_rank_value_and_hand, crate::stubs::five_vh_ghost_v)]
pub fn k_c08_seven_shift_playback() {
    unsafe { crate::src::REACH_OFF = true; }
    crate::ob::c08::seven_shift(&mut KaniSrc);
}

#[kani::proof]
pub fn k_c01_sort_lemma() {
    crate::ob::extra::sort_lemma(&mut KaniSrc);
}

#[kani::proof]
pub fn k_c01_sort_lemma_playback() {
    unsafe { crate::src::REACH_OFF = true; }
    crate::ob::extra::sort_lemma(&mut KaniSrc);
}

#[kani::proof]
#[kani::unwind(66)]
pub fn k_c15_peel_all() {
    crate::ob::extra::peel_all(&mut KaniSrc);
}

#[kani::proof]
#[kani::unwind(66)]
pub fn k_c15_peel_all_playback() {
    unsafe { crate::src::REACH_OFF = true; }
    crate::ob::extra::peel_all(&mut KaniSrc);
}

#[kani::proof]
#[kani::unwind(8)]
pub fn k_c12_card_token_bytes() {
    crate::ob::extra::card_token_bytes(&mut KaniSrc);
}

#[kani::proof]
#[kani::unwind(8)]
pub fn k_c12_card_token_bytes_playback() {
    unsafe { crate::src::REACH_OFF = true; }
    crate::ob::extra::card_token_bytes(&mut KaniSrc);
}

#[kani::proof]
#[kani::unwind(15)]
pub fn k_c06_link_rep_distinct() {
    crate::ob::c06::link_rep_distinct(&mut KaniSrc);
}

#[kani::proof]
#[kani::unwind(15)]
pub fn k_c06_link_rep_distinct_playback() {
    unsafe { crate::src::REACH_OFF = true; }
    crate::ob::c06::link_rep_distinct(&mut KaniSrc);
}

#[kani::proof]
#[kani::unwind(15)]
pub fn k_c06_link_rep_quads() {
    crate::ob::c06::link_rep_quads(&mut KaniSrc);
}

#[kani::proof]
#[kani::unwind(15)]
pub fn k_c06_link_rep_quads_playback() {
    unsafe { crate::src::REACH_OFF = true; }
    crate::ob::c06::link_rep_quads(&mut KaniSrc);
}

#[kani::proof]
#[kani::unwind(15)]
pub fn k_c06_link_rep_full_house() {
    crate::ob::c06::link_rep_full_house(&mut KaniSrc);
}

#[kani::proof]
#[kani::unwind(15)]
pub fn k_c06_link_rep_full_house_playback() {
    unsafe { crate::src::REACH_OFF = true; }
    crate::ob::c06::link_rep_full_house(&mut KaniSrc);
}

#[kani::proof]
#[kani::unwind(15)]
pub fn k_c06_link_rep_trips() {
    crate::ob::c06::link_rep_trips(&mut KaniSrc);
}

#[kani::proof]
#[kani::unwind(15)]
pub fn k_c06_link_rep_trips_playback() {
    unsafe { crate::src::REACH_OFF = true; }
    crate::ob::c06::link_rep_trips(&mut KaniSrc);
}

#[kani::proof]
#[kani::unwind(15)]
pub fn k_c06_link_rep_two_pair() {
    crate::ob::c06::link_rep_two_pair(&mut KaniSrc);
}

#[kani::proof]
#[kani::unwind(15)]
pub fn k_c06_link_rep_two_pair_playback() {
    unsafe { crate::src::REACH_OFF = true; }
    crate::ob::c06::link_rep_two_pair(&mut KaniSrc);
}

#[kani::proof]
#[kani::unwind(15)]
pub fn k_c06_link_rep_pair() {
    crate::ob::c06::link_rep_pair(&mut KaniSrc);
}

#[kani::proof]
#[kani::unwind(15)]
pub fn k_c06_link_rep_pair_playback() {
    unsafe { crate::src::REACH_OFF = true; }
    crate::ob::c06::link_rep_pair(&mut KaniSrc);
}

