//! Native validation of the specification functions against each other (oracle
//! self-check, DESIGN.md section 4). It proves nothing about ckc-rs; it makes sure a
//! defect in *my* oracle shows up here (driver exit 2) and not as an alarm on ckc-rs.
use ckc_contracts::spec::card::*;
use ckc_contracts::spec::chen::*;
use ckc_contracts::spec::class_table::CLASS_TABLE;
use ckc_contracts::spec::poker::*;

fn main() {
    let mut errors = 0u32;
    let mut fail = |m: String| {
        println!("SPECVAL-FAIL {}", m);
        errors += 1;
    };

    // 1. ordinal is a bijection from the 7462 classes onto 1..=7462
    let mut classes: Vec<([u8; 5], bool, u16)> = Vec::new();
    for_each_class(|t, f| classes.push((*t, f, ordinal(t, f))));
    if classes.len() != 7462 {
        fail(format!("class count {}", classes.len()));
    }
    let mut seen = vec![0u8; 7464];
    for (t, f, o) in &classes {
        if *o == 0 || *o > 7462 {
            fail(format!("ordinal out of range {:?} {} -> {}", t, f, o));
            continue;
        }
        seen[*o as usize] += 1;
    }
    for v in 1..=7462usize {
        if seen[v] != 1 {
            fail(format!("ordinal {} produced {} times", v, seen[v]));
        }
    }
    if MAX_ORDINAL != 7462 {
        fail(format!("MAX_ORDINAL {}", MAX_ORDINAL));
    }

    // 2. ordinal order == the independent comparator, for all pairs of classes
    let mut pairs = 0u64;
    for (t1, f1, o1) in &classes {
        for (t2, f2, o2) in &classes {
            let c = compare_hands(t1, *f1, t2, *f2);
            let want = if o1 < o2 {
                -1
            } else if o1 > o2 {
                1
            } else {
                0
            };
            if c != want {
                fail(format!("order mismatch {:?}{} {:?}{}: ordinals {} {} comparator {}", t1, f1, t2, f2, o1, o2, c));
            }
            pairs += 1;
        }
    }

    // 3. anchors given in the property statements / rules
    let anchors: [([u8; 5], bool, u16); 12] = [
        ([12, 11, 10, 9, 8], true, 1),
        ([3, 2, 1, 0, 12], true, 10), // placeholder, fixed below (sorted form of the wheel)
        ([12, 12, 12, 12, 11], false, 11),
        ([0, 0, 0, 0, 1], false, 166),
        ([12, 12, 12, 11, 11], false, 167),
        ([12, 11, 10, 9, 7], true, 323),
        ([5, 3, 2, 1, 0], true, 1599),
        ([12, 11, 10, 9, 8], false, 1600),
        ([12, 3, 2, 1, 0], false, 1609),
        ([12, 12, 12, 11, 10], false, 1610),
        ([12, 11, 10, 9, 7], false, 6186),
        ([5, 3, 2, 1, 0], false, 7462),
    ];
    for (i, (t, f, want)) in anchors.iter().enumerate() {
        let t = if i == 1 { [12, 3, 2, 1, 0] } else { *t };
        let mut ts = t;
        ts.sort_unstable_by(|a, b| b.cmp(a));
        let got = ordinal(&ts, *f);
        if got != *want {
            fail(format!("anchor {:?} {} expected {} got {}", ts, f, want, got));
        }
    }

    // 4. classes: class_of_value(ordinal(c)) == semantic_class(c); contiguous non-empty ranges
    for (t, f, o) in &classes {
        let (cat, idx) = semantic_class(t, *f);
        let (cat2, idx2) = class_of_value(*o);
        if cat != cat2 || idx != idx2 {
            fail(format!("class mismatch {:?} {} ordinal {}: semantic ({},{}) by value ({},{})", t, f, o, cat, idx, cat2, idx2));
        }
    }
    let mut count = vec![0u32; 310];
    let mut last = 0u16;
    for v in 1..=7462u16 {
        let (_, idx) = class_of_value(v);
        if idx < last {
            fail(format!("class index not monotone at {}", v));
        }
        last = idx;
        count[idx as usize] += 1;
    }
    for i in 0..309 {
        if count[i] == 0 {
            fail(format!("class {} empty", i));
        }
    }
    if class_of_value(0) != (CAT_INVALID, CLASS_INVALID) || class_of_value(7463) != (CAT_INVALID, CLASS_INVALID) || class_of_value(65535) != (CAT_INVALID, CLASS_INVALID) {
        fail("invalid values".to_string());
    }
    for (i, (_, cat, p, s)) in CLASS_TABLE.iter().enumerate() {
        if class_index(*cat, *p, *s) as usize != i {
            fail(format!("CLASS_TABLE row {} has index {}", i, class_index(*cat, *p, *s)));
        }
    }
    for i in 0..10usize {
        // first class of each category starts at the category's base value
        if i < 9 && class_of_value(BASE[i]).1 != CLASS_BASE[i] {
            fail(format!("class base {}", i));
        }
    }

    // 5. card vocabulary
    let mut words = std::collections::BTreeSet::new();
    for r in 0..13u8 {
        for s in 0..4u8 {
            let w = layout(r, s);
            words.insert(w);
            if decode(w) != Some((r, s)) {
                fail(format!("decode(layout({},{}))", r, s));
            }
            if at_deck_pos(deck_pos(r, s)) != (r, s) {
                fail(format!("deck_pos({},{})", r, s));
            }
            if shifted_suit(shifted_suit(shifted_suit(shifted_suit(s)))) != s {
                fail("shift cycle".to_string());
            }
        }
    }
    if words.len() != 52 {
        fail("52 distinct words".to_string());
    }
    if layout(12, 3) != 268_471_337 || layout(0, 0) != 69_634 || deck_pos(12, 3) != 0 || deck_pos(0, 0) != 51 {
        fail("layout anchors (ace of spades / deuce of clubs)".to_string());
    }
    if bit_of(12, 3) != 1u64 << 51 || bit_of(0, 0) != 1 {
        fail("bit_of anchors".to_string());
    }

    // 6. Chen formula against published values
    let chen_anchors: [((u8, u8, u8, u8), i32); 12] = [
        ((12, 3, 12, 2), 20), // AA
        ((11, 3, 11, 2), 16), // KK
        ((8, 3, 8, 2), 10),   // TT
        ((0, 3, 0, 2), 5),    // 22
        ((3, 3, 3, 2), 5),    // 55 (minimum 5... 2*2.5 = 5)
        ((12, 3, 11, 3), 12), // AKs
        ((12, 3, 11, 2), 10), // AKo
        ((12, 3, 10, 3), 11), // AQs
        ((8, 3, 7, 3), 9),    // T9s: 5 + 1 + 2 = 8 ... see below
        ((5, 3, 0, 2), -1),   // 72o
        ((5, 3, 4, 3), 7),    // 76s: 3.5 + 1 + 2 = 6.5 -> 7
        ((12, 3, 0, 2), 5),   // A2o: 10 - 5 = 5
    ];
    for (i, ((r1, s1, r2, s2), want)) in chen_anchors.iter().enumerate() {
        let want = if i == 8 { 8 } else { *want };
        if chen(*r1, *s1, *r2, *s2) != want {
            fail(format!("chen anchor {} got {} want {}", i, chen(*r1, *s1, *r2, *s2), want));
        }
        if chen(*r2, *s2, *r1, *s1) != want {
            fail(format!("chen anchor {} not symmetric", i));
        }
    }

    println!("SPECVAL classes={} pairs={} errors={}", classes.len(), pairs, errors);
    if errors != 0 {
        std::process::exit(1);
    }
}
