//! Native re-execution of an obligation body against the real crate.
//!
//!   replay run <obligation> <hex,hex,...>       one run on recorded draws (a Kani counterexample)
//!   replay search <obligation> <seed> <iters>   concretiser: seeded pseudo-random draws until the
//!                                               obligation fails (used only after a verifier
//!                                               has already failed the obligation)
//!   replay list                                 obligation names
//!
//! Output is line based: OK | REJECTED | EXHAUSTED | FAILED <clause> | PANIC <message> |
//! INPUT <hex,hex,...> | COVERED <name> | ITER <n>

use ckc_contracts::dispatch_gen::{dispatch, NAMES};
use ckc_contracts::src::native::{RandSrc, ReplaySrc, SweepSrc};
use std::panic::{self, AssertUnwindSafe};
use std::sync::Mutex;

static LAST_PANIC: Mutex<Option<String>> = Mutex::new(None);

fn hex_to_vecs(s: &str) -> Vec<Vec<u8>> {
    if s.is_empty() || s == "-" {
        return Vec::new();
    }
    s.split(',')
        .map(|h| (0..h.len() / 2).map(|i| u8::from_str_radix(&h[2 * i..2 * i + 2], 16).expect("hex")).collect())
        .collect()
}

fn vecs_to_hex(v: &[Vec<u8>]) -> String {
    v.iter().map(|b| b.iter().map(|x| format!("{:02x}", x)).collect::<String>()).collect::<Vec<_>>().join(",")
}

fn install_hook() {
    panic::set_hook(Box::new(|info| {
        let msg = if let Some(s) = info.payload().downcast_ref::<&str>() {
            s.to_string()
        } else if let Some(s) = info.payload().downcast_ref::<String>() {
            s.clone()
        } else {
            "panic".to_string()
        };
        let loc = info.location().map(|l| format!(" at {}:{}", l.file(), l.line())).unwrap_or_default();
        *LAST_PANIC.lock().unwrap() = Some(format!("{}{}", msg, loc));
    }));
}

fn main() {
    let args: Vec<String> = std::env::args().collect();
    if args.len() < 2 {
        eprintln!("usage: replay run|search|list ...");
        std::process::exit(2);
    }
    install_hook();
    match args[1].as_str() {
        "list" => {
            for n in NAMES {
                println!("{}", n);
            }
        }
        "run" => {
            let name = &args[2];
            let vecs = hex_to_vecs(args.get(3).map(|s| s.as_str()).unwrap_or(""));
            let mut s = ReplaySrc::new(vecs);
            let r = panic::catch_unwind(AssertUnwindSafe(|| dispatch(name, &mut s)));
            match r {
                Ok(false) => {
                    println!("UNKNOWN {}", name);
                    std::process::exit(2);
                }
                Ok(true) => {}
                Err(_) => {
                    let m = LAST_PANIC.lock().unwrap().take().unwrap_or_default();
                    println!("PANIC {}", m.replace('\n', " "));
                }
            }
            for c in &s.covered {
                println!("COVERED {}", c);
            }
            if s.rejected {
                println!("REJECTED");
            }
            if s.exhausted {
                println!("EXHAUSTED");
            }
            for f in &s.failed {
                println!("FAILED {}", f);
            }
            println!("DRAWS {}", s.pos);
            println!("OK");
        }
        "search" => {
            let name = &args[2];
            let seed: u64 = args[3].parse().expect("seed");
            let iters: u64 = args[4].parse().expect("iters");
            let mut s = RandSrc::new(seed ^ 0xC0FFEE);
            let mut accepted: u64 = 0;
            for i in 0..iters {
                s.reset();
                let r = panic::catch_unwind(AssertUnwindSafe(|| dispatch(name, &mut s)));
                let mut hit = false;
                match r {
                    Ok(false) => {
                        println!("UNKNOWN {}", name);
                        std::process::exit(2);
                    }
                    Ok(true) => {
                        if !s.rejected {
                            accepted += 1;
                        }
                        if !s.failed.is_empty() {
                            for f in &s.failed {
                                println!("FAILED {}", f);
                            }
                            hit = true;
                        }
                    }
                    Err(_) => {
                        let m = LAST_PANIC.lock().unwrap().take().unwrap_or_default();
                        println!("PANIC {}", m.replace('\n', " "));
                        hit = true;
                    }
                }
                if hit {
                    println!("INPUT {}", vecs_to_hex(&s.rec));
                    println!("ITER {}", i);
                    println!("ACCEPTED {}", accepted);
                    println!("OK");
                    return;
                }
            }
            println!("NONE");
            println!("ACCEPTED {}", accepted);
            println!("OK");
        }
        "sweep" => {
            // exhaustive odometer sweep of the obligation's draws (small types completely, wide
            // types over a fixed list of structured values); stops at the first failure or when
            // the number of combinations exceeds the cap
            let name = &args[2];
            let cap: f64 = args.get(3).and_then(|s| s.parse().ok()).unwrap_or(2.0e7);
            let mut s = SweepSrc::new();
            let mut runs: u64 = 0;
            loop {
                s.reset();
                let r = panic::catch_unwind(AssertUnwindSafe(|| dispatch(name, &mut s)));
                runs += 1;
                let mut hit = false;
                match r {
                    Ok(false) => {
                        println!("UNKNOWN {}", name);
                        std::process::exit(2);
                    }
                    Ok(true) => {
                        if !s.rejected && !s.failed.is_empty() {
                            for f in &s.failed {
                                println!("FAILED {}", f);
                            }
                            hit = true;
                        }
                    }
                    Err(_) => {
                        let m = LAST_PANIC.lock().unwrap().take().unwrap_or_default();
                        if !s.rejected {
                            println!("PANIC {}", m.replace('\n', " "));
                            hit = true;
                        }
                    }
                }
                if hit {
                    println!("INPUT {}", vecs_to_hex(&s.rec));
                    println!("ITER {}", runs);
                    println!("OK");
                    return;
                }
                if s.size() > cap {
                    println!("TOOBIG {}", s.size());
                    println!("OK");
                    return;
                }
                if !s.advance() {
                    break;
                }
            }
            println!("NONE");
            println!("SWEPT {}", runs);
            println!("OK");
        }
        _ => {
            eprintln!("unknown command");
            std::process::exit(2);
        }
    }
}
