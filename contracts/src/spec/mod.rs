pub mod card;
pub mod chen;
pub mod class_table;
pub mod names;
pub mod poker;
