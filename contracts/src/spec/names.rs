// GENERATED (see tools/gen_names.py): the published constants by (rank, suit) name.
use ckc_rs::cards::binary_card::{BinaryCard, BC64};
use ckc_rs::CardNumber;
/// NAMED_CKC[r][s] is the word constant named <RANK>_<SUIT>
pub const NAMED_CKC: [[u32; 4]; 13] = [
    [CardNumber::DEUCE_CLUBS, CardNumber::DEUCE_DIAMONDS, CardNumber::DEUCE_HEARTS, CardNumber::DEUCE_SPADES],
    [CardNumber::TREY_CLUBS, CardNumber::TREY_DIAMONDS, CardNumber::TREY_HEARTS, CardNumber::TREY_SPADES],
    [CardNumber::FOUR_CLUBS, CardNumber::FOUR_DIAMONDS, CardNumber::FOUR_HEARTS, CardNumber::FOUR_SPADES],
    [CardNumber::FIVE_CLUBS, CardNumber::FIVE_DIAMONDS, CardNumber::FIVE_HEARTS, CardNumber::FIVE_SPADES],
    [CardNumber::SIX_CLUBS, CardNumber::SIX_DIAMONDS, CardNumber::SIX_HEARTS, CardNumber::SIX_SPADES],
    [CardNumber::SEVEN_CLUBS, CardNumber::SEVEN_DIAMONDS, CardNumber::SEVEN_HEARTS, CardNumber::SEVEN_SPADES],
    [CardNumber::EIGHT_CLUBS, CardNumber::EIGHT_DIAMONDS, CardNumber::EIGHT_HEARTS, CardNumber::EIGHT_SPADES],
    [CardNumber::NINE_CLUBS, CardNumber::NINE_DIAMONDS, CardNumber::NINE_HEARTS, CardNumber::NINE_SPADES],
    [CardNumber::TEN_CLUBS, CardNumber::TEN_DIAMONDS, CardNumber::TEN_HEARTS, CardNumber::TEN_SPADES],
    [CardNumber::JACK_CLUBS, CardNumber::JACK_DIAMONDS, CardNumber::JACK_HEARTS, CardNumber::JACK_SPADES],
    [CardNumber::QUEEN_CLUBS, CardNumber::QUEEN_DIAMONDS, CardNumber::QUEEN_HEARTS, CardNumber::QUEEN_SPADES],
    [CardNumber::KING_CLUBS, CardNumber::KING_DIAMONDS, CardNumber::KING_HEARTS, CardNumber::KING_SPADES],
    [CardNumber::ACE_CLUBS, CardNumber::ACE_DIAMONDS, CardNumber::ACE_HEARTS, CardNumber::ACE_SPADES],
];
/// NAMED_BC[r][s] is the bit constant named <RANK>_<SUIT>
pub const NAMED_BC: [[u64; 4]; 13] = [
    [<BinaryCard as BC64>::DEUCE_CLUBS, <BinaryCard as BC64>::DEUCE_DIAMONDS, <BinaryCard as BC64>::DEUCE_HEARTS, <BinaryCard as BC64>::DEUCE_SPADES],
    [<BinaryCard as BC64>::TREY_CLUBS, <BinaryCard as BC64>::TREY_DIAMONDS, <BinaryCard as BC64>::TREY_HEARTS, <BinaryCard as BC64>::TREY_SPADES],
    [<BinaryCard as BC64>::FOUR_CLUBS, <BinaryCard as BC64>::FOUR_DIAMONDS, <BinaryCard as BC64>::FOUR_HEARTS, <BinaryCard as BC64>::FOUR_SPADES],
    [<BinaryCard as BC64>::FIVE_CLUBS, <BinaryCard as BC64>::FIVE_DIAMONDS, <BinaryCard as BC64>::FIVE_HEARTS, <BinaryCard as BC64>::FIVE_SPADES],
    [<BinaryCard as BC64>::SIX_CLUBS, <BinaryCard as BC64>::SIX_DIAMONDS, <BinaryCard as BC64>::SIX_HEARTS, <BinaryCard as BC64>::SIX_SPADES],
    [<BinaryCard as BC64>::SEVEN_CLUBS, <BinaryCard as BC64>::SEVEN_DIAMONDS, <BinaryCard as BC64>::SEVEN_HEARTS, <BinaryCard as BC64>::SEVEN_SPADES],
    [<BinaryCard as BC64>::EIGHT_CLUBS, <BinaryCard as BC64>::EIGHT_DIAMONDS, <BinaryCard as BC64>::EIGHT_HEARTS, <BinaryCard as BC64>::EIGHT_SPADES],
    [<BinaryCard as BC64>::NINE_CLUBS, <BinaryCard as BC64>::NINE_DIAMONDS, <BinaryCard as BC64>::NINE_HEARTS, <BinaryCard as BC64>::NINE_SPADES],
    [<BinaryCard as BC64>::TEN_CLUBS, <BinaryCard as BC64>::TEN_DIAMONDS, <BinaryCard as BC64>::TEN_HEARTS, <BinaryCard as BC64>::TEN_SPADES],
    [<BinaryCard as BC64>::JACK_CLUBS, <BinaryCard as BC64>::JACK_DIAMONDS, <BinaryCard as BC64>::JACK_HEARTS, <BinaryCard as BC64>::JACK_SPADES],
    [<BinaryCard as BC64>::QUEEN_CLUBS, <BinaryCard as BC64>::QUEEN_DIAMONDS, <BinaryCard as BC64>::QUEEN_HEARTS, <BinaryCard as BC64>::QUEEN_SPADES],
    [<BinaryCard as BC64>::KING_CLUBS, <BinaryCard as BC64>::KING_DIAMONDS, <BinaryCard as BC64>::KING_HEARTS, <BinaryCard as BC64>::KING_SPADES],
    [<BinaryCard as BC64>::ACE_CLUBS, <BinaryCard as BC64>::ACE_DIAMONDS, <BinaryCard as BC64>::ACE_HEARTS, <BinaryCard as BC64>::ACE_SPADES],
];
