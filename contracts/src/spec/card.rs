//! Card-level specification vocabulary, written from the property statements
//! (C10, C11, C14, C18, C20), not from the code.
//!
//! rank r in 0..13 (deuce = 0 … ace = 12); suit s in 0..4 (clubs = 0, diamonds = 1,
//! hearts = 2, spades = 3).

pub const PRIME: [u32; 13] = [2, 3, 5, 7, 11, 13, 17, 19, 23, 29, 31, 37, 41];
pub const RANK_CHAR: [char; 13] = ['2', '3', '4', '5', '6', '7', '8', '9', 'T', 'J', 'Q', 'K', 'A'];
pub const SUIT_GLYPH: [char; 4] = ['♣', '♦', '♥', '♠'];
pub const SUIT_OUTLINE: [char; 4] = ['♧', '♢', '♡', '♤'];
pub const SUIT_LETTER: [char; 4] = ['C', 'D', 'H', 'S'];

/// prime in bits 0-5, rank number in bits 8-11, one suit bit in bits 12-15
/// (clubs lowest, spades highest), one rank bit in bits 16-28.
#[inline]
pub fn layout(r: u8, s: u8) -> u32 {
    PRIME[r as usize] | ((r as u32) << 8) | (1u32 << (12 + s as u32)) | (1u32 << (16 + r as u32))
}

/// (rank, suit) of a word if it is one of the 52 card words.
#[inline]
pub fn decode(w: u32) -> Option<(u8, u8)> {
    let r = ((w >> 8) & 0xF) as u8;
    let nib = (w >> 12) & 0xF;
    if r >= 13 {
        return None;
    }
    let s: u8 = match nib {
        1 => 0,
        2 => 1,
        4 => 2,
        8 => 3,
        _ => return None,
    };
    if w == layout(r, s) {
        Some((r, s))
    } else {
        None
    }
}

#[inline]
pub fn is_card(w: u32) -> bool {
    decode(w).is_some()
}

/// position in the deck: spades, hearts, diamonds, clubs, each ace down to deuce
#[inline]
pub fn deck_pos(r: u8, s: u8) -> u8 {
    13 * (3 - s) + (12 - r)
}

/// inverse of `deck_pos`
#[inline]
pub fn at_deck_pos(i: u8) -> (u8, u8) {
    (12 - i % 13, 3 - i / 13)
}

/// bit of the 64-bit set form: bit 51 for the first deck card down to bit 0 for the last
#[inline]
pub fn bit_of(r: u8, s: u8) -> u64 {
    1u64 << (51 - deck_pos(r, s) as u32)
}

/// the suit after one shift: spades -> hearts -> diamonds -> clubs -> spades
#[inline]
pub fn shifted_suit(s: u8) -> u8 {
    if s == 0 {
        3
    } else {
        s - 1
    }
}

/// rank enumeration discriminant as published (ACE = 14 … TWO = 2, BLANK = 0)
#[inline]
pub fn rank_enum_value(r: u8) -> u8 {
    r + 2
}

/// suit enumeration discriminant as published (SPADES = 4 … CLUBS = 1, BLANK = 0)
#[inline]
pub fn suit_enum_value(s: u8) -> u8 {
    s + 1
}

/// rank symbol table of C12: A K Q J T 0 9-2, either case
pub fn rank_of_char(c: char) -> Option<u8> {
    match c {
        'A' | 'a' => Some(12),
        'K' | 'k' => Some(11),
        'Q' | 'q' => Some(10),
        'J' | 'j' => Some(9),
        'T' | 't' | '0' => Some(8),
        '9' => Some(7),
        '8' => Some(6),
        '7' => Some(5),
        '6' => Some(4),
        '5' => Some(3),
        '4' => Some(2),
        '3' => Some(1),
        '2' => Some(0),
        _ => None,
    }
}

/// suit symbol table of C12: S H D C in either case or a filled or outline glyph
pub fn suit_of_char(c: char) -> Option<u8> {
    match c {
        'S' | 's' | '♠' | '♤' => Some(3),
        'H' | 'h' | '♥' | '♡' => Some(2),
        'D' | 'd' | '♦' | '♢' => Some(1),
        'C' | 'c' | '♣' | '♧' => Some(0),
        _ => None,
    }
}

/// what a card token should parse to: the first two characters through the tables
pub fn parse_two_chars(c0: Option<char>, c1: Option<char>) -> u32 {
    match (c0, c1) {
        (Some(a), Some(b)) => match (rank_of_char(a), suit_of_char(b)) {
            (Some(r), Some(s)) => layout(r, s),
            _ => 0,
        },
        _ => 0,
    }
}

pub fn all_distinct(h: &[u32]) -> bool {
    let mut i = 0;
    while i < h.len() {
        let mut j = i + 1;
        while j < h.len() {
            if h[i] == h[j] {
                return false;
            }
            j += 1;
        }
        i += 1;
    }
    true
}

pub fn all_cards(h: &[u32]) -> bool {
    let mut i = 0;
    while i < h.len() {
        if !is_card(h[i]) {
            return false;
        }
        i += 1;
    }
    true
}

/// C04: a hand is valid exactly when every slot holds one of the 52 card words and
/// no two slots are equal.
pub fn valid_hand(h: &[u32]) -> bool {
    all_cards(h) && all_distinct(h)
}

pub fn any_blank(h: &[u32]) -> bool {
    let mut i = 0;
    while i < h.len() {
        if h[i] == 0 {
            return true;
        }
        i += 1;
    }
    false
}

pub fn count_of(h: &[u32], w: u32) -> usize {
    let mut n = 0;
    let mut i = 0;
    while i < h.len() {
        if h[i] == w {
            n += 1;
        }
        i += 1;
    }
    n
}

pub fn non_increasing(h: &[u32]) -> bool {
    let mut i = 1;
    while i < h.len() {
        if h[i - 1] < h[i] {
            return false;
        }
        i += 1;
    }
    true
}

/// same multiset: every element of either has the same number of occurrences in both
pub fn same_multiset(a: &[u32], b: &[u32]) -> bool {
    if a.len() != b.len() {
        return false;
    }
    let mut i = 0;
    while i < a.len() {
        if count_of(a, a[i]) != count_of(b, a[i]) {
            return false;
        }
        if count_of(a, b[i]) != count_of(b, b[i]) {
            return false;
        }
        i += 1;
    }
    true
}
