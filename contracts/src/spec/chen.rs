//! Bill Chen's starting-hand formula in integer half-points, from the statement of C17.

/// high-card points in half-points: ace 10, king 8, queen 7, jack 6, otherwise half the pip value
pub fn high_points2(r: u8) -> i32 {
    match r {
        12 => 20,
        11 => 16,
        10 => 14,
        9 => 12,
        _ => r as i32 + 2,
    }
}

/// cards between the two ranks (0 for equal or adjacent ranks)
pub fn gap(r1: u8, r2: u8) -> u8 {
    let (hi, lo) = if r1 >= r2 { (r1, r2) } else { (r2, r1) };
    if hi == lo {
        0
    } else {
        hi - lo - 1
    }
}

/// the score in half-points before rounding
pub fn chen2(r1: u8, s1: u8, r2: u8, s2: u8) -> i32 {
    let hi = if r1 >= r2 { r1 } else { r2 };
    let mut p = high_points2(hi);
    if r1 == r2 {
        p = if p * 2 > 10 { p * 2 } else { 10 };
    } else {
        let g = gap(r1, r2);
        p -= match g {
            0 => 0,
            1 => 2,
            2 => 4,
            3 => 8,
            _ => 10,
        };
        // +1 for a non-pair with a gap under 2 below a queen
        if g < 2 && hi < 10 {
            p += 2;
        }
    }
    if s1 == s2 {
        p += 4;
    }
    p
}

/// rounded half-up
pub fn chen(r1: u8, s1: u8, r2: u8, s2: u8) -> i32 {
    (chen2(r1, s1, r2, s2) + 1).div_euclid(2)
}
