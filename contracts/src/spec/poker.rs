//! Poker-rule specification: strength ordinal of a five-card class, an independent
//! comparator, the class index (category + specific class) of a hand and of a value.
//! Written from the rules of poker and the property statements, not from the code or
//! its tables. `specval` validates these functions against each other natively.
//!
//! A five-card *class* is a sorted (non-increasing) rank tuple plus a flush flag
//! (the flag is only meaningful when the five ranks are distinct).

/// C(n, k) for n <= 13, k <= 5
pub const BINOM: [[u16; 6]; 14] = {
    let mut t = [[0u16; 6]; 14];
    let mut n = 0;
    while n < 14 {
        t[n][0] = 1;
        let mut k = 1;
        while k < 6 {
            t[n][k] = if n == 0 { 0 } else { t[n - 1][k - 1] + t[n - 1][k] };
            k += 1;
        }
        n += 1;
    }
    t
};

#[inline]
pub fn c(n: u8, k: u8) -> u16 {
    BINOM[n as usize][k as usize]
}

pub const CAT_STRAIGHT_FLUSH: u8 = 0;
pub const CAT_QUADS: u8 = 1;
pub const CAT_FULL_HOUSE: u8 = 2;
pub const CAT_FLUSH: u8 = 3;
pub const CAT_STRAIGHT: u8 = 4;
pub const CAT_TRIPS: u8 = 5;
pub const CAT_TWO_PAIR: u8 = 6;
pub const CAT_PAIR: u8 = 7;
pub const CAT_HIGH_CARD: u8 = 8;
pub const CAT_INVALID: u8 = 9;

/// first ordinal of each category, from the class counts
/// 10, 156, 156, 1277, 10, 858, 858, 2860, 1277 (each a binomial expression).
pub const BASE: [u16; 10] = {
    let sf = 10u16; // 9 runs + wheel
    let quads = 13 * 12;
    let full = 13 * 12;
    let flush = BINOM[13][5] - 10;
    let straight = 10;
    let trips = 13 * BINOM[12][2];
    let twopair = BINOM[13][2] * 11;
    let pair = 13 * BINOM[12][3];
    let high = BINOM[13][5] - 10;
    let b0 = 1;
    let b1 = b0 + sf;
    let b2 = b1 + quads;
    let b3 = b2 + full;
    let b4 = b3 + flush;
    let b5 = b4 + straight;
    let b6 = b5 + trips;
    let b7 = b6 + twopair;
    let b8 = b7 + pair;
    let b9 = b8 + high;
    [b0, b1, b2, b3, b4, b5, b6, b7, b8, b9]
};

pub const MAX_ORDINAL: u16 = BASE[9] - 1; // 7462

/// `t` sorted non-increasing, every rank < 13, no rank more than four times
pub fn is_class_tuple(t: &[u8; 5]) -> bool {
    t[0] < 13 && t[0] >= t[1] && t[1] >= t[2] && t[2] >= t[3] && t[3] >= t[4] && !(t[0] == t[4])
}

#[inline]
pub fn distinct5(t: &[u8; 5]) -> bool {
    t[0] > t[1] && t[1] > t[2] && t[2] > t[3] && t[3] > t[4]
}

/// top rank of the straight made by five distinct sorted ranks (the wheel's top is
/// the five, rank 3), or None
#[inline]
pub fn straight_top(t: &[u8; 5]) -> Option<u8> {
    if !distinct5(t) {
        return None;
    }
    if t[0] - t[4] == 4 {
        Some(t[0])
    } else if t[0] == 12 && t[1] == 3 {
        // A 5 4 3 2 (distinct and t[1] == 3 force 3,2,1,0)
        Some(3)
    } else {
        None
    }
}

/// The shape of a sorted tuple: (category ignoring suits, primary rank, secondary
/// rank, kickers in descending order padded with 0, number of kickers).
/// quads: (q, k); full house: (t, p); trips: (t; k1 k2); two pair: (p1, p2; k);
/// pair: (p; k1 k2 k3); five distinct: primary = t[0].
pub struct Shape {
    pub cat: u8,
    pub primary: u8,
    pub secondary: u8,
    pub kick: [u8; 3],
}

pub fn shape(t: &[u8; 5], flush: bool) -> Shape {
    let e01 = t[0] == t[1];
    let e12 = t[1] == t[2];
    let e23 = t[2] == t[3];
    let e34 = t[3] == t[4];
    if e01 && e12 && e23 {
        Shape { cat: CAT_QUADS, primary: t[0], secondary: t[4], kick: [t[4], 0, 0] }
    } else if e12 && e23 && e34 {
        Shape { cat: CAT_QUADS, primary: t[1], secondary: t[0], kick: [t[0], 0, 0] }
    } else if e01 && e12 && e34 {
        Shape { cat: CAT_FULL_HOUSE, primary: t[0], secondary: t[3], kick: [0, 0, 0] }
    } else if e01 && e23 && e34 {
        Shape { cat: CAT_FULL_HOUSE, primary: t[2], secondary: t[0], kick: [0, 0, 0] }
    } else if e01 && e12 {
        Shape { cat: CAT_TRIPS, primary: t[0], secondary: 0, kick: [t[3], t[4], 0] }
    } else if e12 && e23 {
        Shape { cat: CAT_TRIPS, primary: t[1], secondary: 0, kick: [t[0], t[4], 0] }
    } else if e23 && e34 {
        Shape { cat: CAT_TRIPS, primary: t[2], secondary: 0, kick: [t[0], t[1], 0] }
    } else if e01 && e23 {
        Shape { cat: CAT_TWO_PAIR, primary: t[0], secondary: t[2], kick: [t[4], 0, 0] }
    } else if e01 && e34 {
        Shape { cat: CAT_TWO_PAIR, primary: t[0], secondary: t[3], kick: [t[2], 0, 0] }
    } else if e12 && e34 {
        Shape { cat: CAT_TWO_PAIR, primary: t[1], secondary: t[3], kick: [t[0], 0, 0] }
    } else if e01 {
        Shape { cat: CAT_PAIR, primary: t[0], secondary: 0, kick: [t[2], t[3], t[4]] }
    } else if e12 {
        Shape { cat: CAT_PAIR, primary: t[1], secondary: 0, kick: [t[0], t[3], t[4]] }
    } else if e23 {
        Shape { cat: CAT_PAIR, primary: t[2], secondary: 0, kick: [t[0], t[1], t[4]] }
    } else if e34 {
        Shape { cat: CAT_PAIR, primary: t[3], secondary: 0, kick: [t[0], t[1], t[2]] }
    } else {
        match straight_top(t) {
            Some(top) => {
                Shape { cat: if flush { CAT_STRAIGHT_FLUSH } else { CAT_STRAIGHT }, primary: top, secondary: 0, kick: [0, 0, 0] }
            }
            None => Shape { cat: if flush { CAT_FLUSH } else { CAT_HIGH_CARD }, primary: t[0], secondary: 0, kick: [0, 0, 0] },
        }
    }
}

pub fn category(t: &[u8; 5], flush: bool) -> u8 {
    shape(t, flush).cat
}

/// position of rank k among the ranks other than `a` (0-based from the bottom)
#[inline]
fn skip1(k: u8, a: u8) -> u8 {
    if k > a {
        k - 1
    } else {
        k
    }
}

#[inline]
fn skip2(k: u8, a: u8, b: u8) -> u8 {
    k - (if k > a { 1 } else { 0 }) - (if k > b { 1 } else { 0 })
}

/// index (0 = best) of a non-straight five-distinct-ranks tuple among the 1277
/// such tuples in descending lexicographic order
fn distinct_index(t: &[u8; 5]) -> u16 {
    // combinatorial number system: position from the bottom among all C(13,5) subsets
    let n = c(t[0], 5) + c(t[1], 4) + c(t[2], 3) + c(t[3], 2) + c(t[4], 1);
    let above = c(13, 5) - 1 - n;
    // straights that sort above this tuple: the runs with top >= t[0], and the wheel
    // (which as a tuple A-5-4-3-2 is the smallest ace-high tuple) unless t[0] is an ace
    let runs_above = 13 - t[0] as u16;
    let wheel_above = if t[0] < 12 { 1 } else { 0 };
    above - runs_above - wheel_above
}

/// The strength ordinal: 1 for a royal flush down to 7462 for 7-5-4-3-2 unsuited.
/// `t` must satisfy `is_class_tuple`; `flush` is ignored unless the ranks are distinct.
pub fn ordinal(t: &[u8; 5], flush: bool) -> u16 {
    let sh = shape(t, flush);
    match sh.cat {
        CAT_STRAIGHT_FLUSH => BASE[0] + (12 - sh.primary as u16),
        CAT_QUADS => BASE[1] + (12 - sh.primary as u16) * 12 + (11 - skip1(sh.kick[0], sh.primary) as u16),
        CAT_FULL_HOUSE => BASE[2] + (12 - sh.primary as u16) * 12 + (11 - skip1(sh.secondary, sh.primary) as u16),
        CAT_FLUSH => BASE[3] + distinct_index(t),
        CAT_STRAIGHT => BASE[4] + (12 - sh.primary as u16),
        CAT_TRIPS => {
            let k1 = skip1(sh.kick[0], sh.primary);
            let k2 = skip1(sh.kick[1], sh.primary);
            BASE[5] + (12 - sh.primary as u16) * c(12, 2) + (c(12, 2) - 1 - (c(k1, 2) + c(k2, 1)))
        }
        CAT_TWO_PAIR => {
            let pp = c(13, 2) - 1 - (c(sh.primary, 2) + c(sh.secondary, 1));
            let k = skip2(sh.kick[0], sh.primary, sh.secondary);
            BASE[6] + pp * 11 + (10 - k as u16)
        }
        CAT_PAIR => {
            let k1 = skip1(sh.kick[0], sh.primary);
            let k2 = skip1(sh.kick[1], sh.primary);
            let k3 = skip1(sh.kick[2], sh.primary);
            BASE[7] + (12 - sh.primary as u16) * c(12, 3) + (c(12, 3) - 1 - (c(k1, 3) + c(k2, 2) + c(k3, 1)))
        }
        _ => BASE[8] + distinct_index(t),
    }
}

// ------------------------------------------------------------------ comparator
// Independent of `ordinal`: category first, then the ranks ordered by (multiplicity,
// rank), compared lexicographically. Never mentions ordinals or binomials.

fn tiebreak(t: &[u8; 5], flush: bool) -> (u8, [u8; 5]) {
    let sh = shape(t, flush);
    let v = match sh.cat {
        CAT_STRAIGHT_FLUSH | CAT_STRAIGHT => [sh.primary, 0, 0, 0, 0],
        CAT_QUADS => [sh.primary, sh.kick[0], 0, 0, 0],
        CAT_FULL_HOUSE => [sh.primary, sh.secondary, 0, 0, 0],
        CAT_TRIPS => [sh.primary, sh.kick[0], sh.kick[1], 0, 0],
        CAT_TWO_PAIR => [sh.primary, sh.secondary, sh.kick[0], 0, 0],
        CAT_PAIR => [sh.primary, sh.kick[0], sh.kick[1], sh.kick[2], 0],
        _ => *t,
    };
    (sh.cat, v)
}

/// -1: first is stronger, 0: tie, 1: second is stronger
pub fn compare_hands(t1: &[u8; 5], f1: bool, t2: &[u8; 5], f2: bool) -> i8 {
    let (c1, v1) = tiebreak(t1, f1);
    let (c2, v2) = tiebreak(t2, f2);
    if c1 != c2 {
        return if c1 < c2 { -1 } else { 1 };
    }
    let mut i = 0;
    while i < 5 {
        if v1[i] != v2[i] {
            return if v1[i] > v2[i] { -1 } else { 1 };
        }
        i += 1;
    }
    0
}

// ------------------------------------------------------------------ classes
// The 310 specific classes in strength order: 10 straight flushes by top card, 13
// quads, 156 full houses (trips rank then pair rank), 8 flushes by high card, 10
// straights, 13 trips, 78 two pairs, 13 pairs, 8 high cards, Invalid.

pub const CLASS_BASE: [u16; 10] = [0, 10, 23, 179, 187, 197, 210, 288, 301, 309];
pub const CLASS_INVALID: u16 = 309;

/// class index from the semantic description (category, primary, secondary)
pub fn class_index(cat: u8, primary: u8, secondary: u8) -> u16 {
    match cat {
        CAT_STRAIGHT_FLUSH => CLASS_BASE[0] + (12 - primary as u16),
        CAT_QUADS => CLASS_BASE[1] + (12 - primary as u16),
        CAT_FULL_HOUSE => CLASS_BASE[2] + (12 - primary as u16) * 12 + (11 - skip1(secondary, primary) as u16),
        CAT_FLUSH => CLASS_BASE[3] + (12 - primary as u16),
        CAT_STRAIGHT => CLASS_BASE[4] + (12 - primary as u16),
        CAT_TRIPS => CLASS_BASE[5] + (12 - primary as u16),
        CAT_TWO_PAIR => CLASS_BASE[6] + (c(13, 2) - 1 - (c(primary, 2) + c(secondary, 1))),
        CAT_PAIR => CLASS_BASE[7] + (12 - primary as u16),
        CAT_HIGH_CARD => CLASS_BASE[8] + (12 - primary as u16),
        _ => CLASS_INVALID,
    }
}

/// the class a hand belongs to, straight from its cards
pub fn semantic_class(t: &[u8; 5], flush: bool) -> (u8, u16) {
    let sh = shape(t, flush);
    (sh.cat, class_index(sh.cat, sh.primary, sh.secondary))
}

/// number of non-straight five-distinct tuples whose top rank is exactly `r`
/// (C(r,4) tuples, minus the run topped by r, minus the wheel for the ace)
pub fn distinct_count_with_top(r: u8) -> u16 {
    if r < 5 {
        return 0;
    }
    c(r, 4) - 1 - (if r == 12 { 1 } else { 0 })
}

/// (category, class index) of a value, by arithmetic on the range boundaries.
pub fn class_of_value(v: u16) -> (u8, u16) {
    if v == 0 || v > MAX_ORDINAL {
        return (CAT_INVALID, CLASS_INVALID);
    }
    let mut cat = 0u8;
    while cat < 8 && v >= BASE[cat as usize + 1] {
        cat += 1;
    }
    let off = v - BASE[cat as usize];
    let idx = match cat {
        CAT_STRAIGHT_FLUSH | CAT_STRAIGHT => off,
        CAT_QUADS => off / 12,
        CAT_FULL_HOUSE => off,
        CAT_TRIPS => off / c(12, 2),
        CAT_TWO_PAIR => off / 11,
        CAT_PAIR => off / c(12, 3),
        _ => {
            // flush / high card: walk the high-card groups from the ace down
            let mut r = 12u8;
            let mut acc = 0u16;
            let mut k = 0u16;
            while r >= 5 {
                let n = distinct_count_with_top(r);
                if off < acc + n {
                    break;
                }
                acc += n;
                k += 1;
                r -= 1;
            }
            k
        }
    };
    (cat, CLASS_BASE[cat as usize] + idx)
}

// ------------------------------------------------------------------ class enumeration (native validation, sampling)

/// Calls `f` on every one of the 7462 classes (6175 rank multisets; the 1287 with
/// distinct ranks once unsuited and once suited).
#[cfg(not(kani))]
pub fn for_each_class<F: FnMut(&[u8; 5], bool)>(mut f: F) {
    for a in 0..13u8 {
        for b in 0..=a {
            for cc in 0..=b {
                for d in 0..=cc {
                    for e in 0..=d {
                        let t = [a, b, cc, d, e];
                        if !is_class_tuple(&t) {
                            continue;
                        }
                        f(&t, false);
                        if distinct5(&t) {
                            f(&t, true);
                        }
                    }
                }
            }
        }
    }
}
