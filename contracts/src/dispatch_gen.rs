// GENERATED from /verif/obligations.json by vlib/registry.py - do not edit.
use crate::src::Src;

/// run obligation `name` on the given value source; false if there is no such obligation
pub fn dispatch<S: Src>(name: &str, s: &mut S) -> bool {
    match name {
        "C10.filter_exact" => crate::ob::c10::filter_exact(s),
        "C10.constants" => crate::ob::c10::constants(s),
        "C10.create" => crate::ob::c10::create(s),
        "C10.accessors" => crate::ob::c10::accessors(s),
        _ => return false,
    }
    true
}

pub const NAMES: &[&str] = &[
    "C10.filter_exact",
    "C10.constants",
    "C10.create",
    "C10.accessors",
];
