//! C08 – suit shifting is a rank-preserving 4-cycle and never changes a hand's value.
use super::c13::{draw_hand5, same_suit};
use super::common::*;
use crate::spec::card::*;
use crate::src::Src;
use ckc_rs::cards::five::Five;
use ckc_rs::cards::four::Four;
use ckc_rs::cards::seven::Seven;
use ckc_rs::cards::six::Six;
use ckc_rs::cards::three::Three;
use ckc_rs::cards::two::Two;
use ckc_rs::{PokerCard, Shifty};

/// forall cards: spades -> hearts -> diamonds -> clubs -> spades, rank kept; blank stays blank
pub fn card_cycle<S: Src>(s: &mut S) {
    let (r, su, w) = draw_card(s);
    reach!(s, su == 0, "C08.card_cycle.reach_clubs_wraps");
    let w1 = w.shift_suit();
    check!(s, w1 == layout(r, shifted_suit(su)), "C08.card_cycle.next_suit_same_rank");
    check!(s, w1 != w, "C08.card_cycle.moves");
    check!(s, w.shift_suit().shift_suit().shift_suit().shift_suit() == w, "C08.card_cycle.four_shifts_restore");
    check!(s, 0u32.shift_suit() == 0, "C08.card_cycle.blank_stays_blank");
}

macro_rules! slotwise_ob {
    ($f:ident, $T:ty, $n:expr) => {
        /// forall words: shifting a hand shifts the word in every slot
        pub fn $f<S: Src>(s: &mut S) {
            let mut a = [0u32; $n];
            let mut i = 0;
            while i < $n {
                a[i] = s.u32();
                i += 1;
            }
            reach!(s, is_card(a[0]) && !is_card(a[1]), "C08.slotwise.reach_mixed");
            let out = <$T>::from(a).shift_suit().to_arr();
            let mut i = 0;
            while i < $n {
                check!(s, out[i] == a[i].shift_suit(), "C08.slotwise.slot_shifted");
                i += 1;
            }
        }
    };
}

slotwise_ob!(slotwise_2, Two, 2);
slotwise_ob!(slotwise_3, Three, 3);
slotwise_ob!(slotwise_4, Four, 4);
slotwise_ob!(slotwise_5, Five, 5);
slotwise_ob!(slotwise_6, Six, 6);
slotwise_ob!(slotwise_7, Seven, 7);

/// forall hands of five distinct cards, forall of the 24 relabellings of the four
/// suits: the three quantities the evaluation depends on (OR of rank bits, the
/// all-same-suit test, product of rank primes) are unchanged. With K3 (the value is a
/// function of that triple) this is value invariance.
pub fn five_triple<S: Src>(s: &mut S) {
    let (r, su, w) = draw_hand5(s);
    assume!(s, all_distinct(&w));
    let pi = [s.below(4), s.below(4), s.below(4), s.below(4)];
    assume!(s, pi[0] != pi[1] && pi[0] != pi[2] && pi[0] != pi[3] && pi[1] != pi[2] && pi[1] != pi[3] && pi[2] != pi[3]);
    reach!(s, same_suit(&su), "C08.five_triple.reach_flush");
    reach!(s, pi[0] == 3 && pi[3] == 0, "C08.five_triple.reach_swap");
    let mut w2 = [0u32; 5];
    let mut i = 0;
    while i < 5 {
        w2[i] = layout(r[i], pi[su[i] as usize]);
        i += 1;
    }
    let h = Five::from(w);
    let h2 = Five::from(w2);
    check!(s, h2.or_rank_bits() == h.or_rank_bits(), "C08.five_triple.or_rank_bits_same");
    check!(s, h2.is_flush() == h.is_flush(), "C08.five_triple.is_flush_same");
    check!(s, h2.multiply_primes() == h.multiply_primes(), "C08.five_triple.multiply_primes_same");
    // the one-step shift is one of the relabellings
    let sh = h.shift_suit();
    check!(s, sh.or_rank_bits() == h.or_rank_bits() && sh.is_flush() == h.is_flush() && sh.multiply_primes() == h.multiply_primes(), "C08.five_triple.shift_same_triple");
}

/// forall six distinct real cards: the value of the shifted hand equals the value of the
/// hand. Five-card evaluation = ghost V, and V of a shifted five-subset = V of the
/// subset (exactly the five-card clause proved by C08.five_triple + C01.k3): phase 0
/// keys V on the cards, phase 1 on the shifted cards.
pub fn six_shift<S: Src>(s: &mut S) {
    use super::c02::draw_cards;
    use crate::stubs::GhostV;
    use ckc_rs::cards::HandRanker;
    let (cards, w6) = draw_cards::<S, 6>(s);
    assume!(s, all_distinct(&w6));
    let g = GhostV::install_any(cards, 6);
    let h = Six::from(w6);
    let mut shifted = [0u32; 7];
    let mut i = 0;
    while i < 6 {
        shifted[i] = cards[i].shift_suit();
        i += 1;
    }
    g.install_phase1(shifted);
    g.set_phase(0);
    let v0 = h.hand_rank_value();
    g.set_phase(1);
    let v1 = h.shift_suit().hand_rank_value();
    check!(s, v0 == v1, "C08.six_shift.value_unchanged");
}

pub fn seven_shift<S: Src>(s: &mut S) {
    use super::c02::draw_cards;
    use crate::stubs::GhostV;
    use ckc_rs::cards::HandRanker;
    let (cards, w7) = draw_cards::<S, 7>(s);
    assume!(s, all_distinct(&w7));
    let g = GhostV::install_any(cards, 7);
    let h = Seven::from(w7);
    let mut shifted = [0u32; 7];
    let mut i = 0;
    while i < 7 {
        shifted[i] = cards[i].shift_suit();
        i += 1;
    }
    g.install_phase1(shifted);
    g.set_phase(0);
    let v0 = h.hand_rank_value();
    g.set_phase(1);
    let v1 = h.shift_suit().hand_rank_value();
    check!(s, v0 == v1, "C08.seven_shift.value_unchanged");
}

/// thorough: the real five-card evaluator on a hand and on its shift (no stubs)
pub fn five_shift_direct<S: Src>(s: &mut S) {
    use ckc_rs::cards::HandRanker;
    let (_, _, w) = draw_hand5(s);
    assume!(s, all_distinct(&w));
    let h = Five::from(w);
    check!(s, h.shift_suit().hand_rank_value() == h.hand_rank_value(), "C08.five_shift_direct.value_unchanged");
}
