//! C16 – two-card hand from a bit-set: succeeds exactly for two card bits, round-trips.
use crate::spec::card::*;
use crate::src::Src;
use ckc_rs::cards::binary_card::{BinaryCard, BC64};
use ckc_rs::cards::two::Two;
use ckc_rs::cards::HandValidator;
use ckc_rs::HandError;

fn popcount(b: u64) -> u32 {
    let mut n = 0;
    let mut i = 0;
    while i < 64 {
        if (b >> i) & 1 == 1 {
            n += 1;
        }
        i += 1;
    }
    n
}

/// forall b: u64
pub fn try_from<S: Src>(s: &mut S) {
    let b = s.u64();
    let n = popcount(b);
    reach!(s, n == 2 && b >> 52 == 0, "C16.try_from.reach_two_cards");
    reach!(s, n == 2 && b >> 52 != 0 && b & ((1u64 << 52) - 1) != 0, "C16.try_from.reach_one_overflow_bit");
    reach!(s, n == 2 && b & ((1u64 << 52) - 1) == 0, "C16.try_from.reach_two_overflow_bits");
    reach!(s, n == 1, "C16.try_from.reach_one");
    reach!(s, n > 2, "C16.try_from.reach_many");
    let r = Two::try_from(b);
    if n < 2 {
        check!(s, r == Err(HandError::NotEnoughCards), "C16.try_from.not_enough");
    } else if n > 2 {
        check!(s, r == Err(HandError::TooManyCards), "C16.try_from.too_many");
    } else if b >> 52 != 0 {
        check!(s, r == Err(HandError::InvalidBinaryFormat), "C16.try_from.invalid_format");
    } else {
        let hi = 63 - b.leading_zeros();
        let lo = b.trailing_zeros();
        let (r1, s1) = at_deck_pos(51 - hi as u8);
        let (r2, s2) = at_deck_pos(51 - lo as u8);
        match r {
            Ok(t) => {
                check!(s, t.first() == layout(r1, s1), "C16.try_from.first_is_higher_bit");
                check!(s, t.second() == layout(r2, s2), "C16.try_from.second_is_lower_bit");
                check!(s, <BinaryCard as BC64>::from_two(t) == b, "C16.try_from.round_trip");
            }
            Err(_) => {
                check!(s, false, "C16.try_from.two_cards_must_succeed");
            }
        }
    }
}
