//! C20 – multiples flags leave card fields intact, strip cleanly, and dominate order.
use super::common::*;
use crate::spec::card::*;
use crate::src::Src;
use ckc_rs::PokerCard;

fn mark(w: u32, which: u8) -> u32 {
    match which {
        0 => w.flag_as_pair(),
        1 => w.flag_as_trips(),
        _ => w.flag_as_quads(),
    }
}

/// apply the chosen marks in one of the six possible orders
fn mark_all(w: u32, p: bool, t: bool, q: bool, order: u8) -> u32 {
    let perm: [u8; 3] = match order {
        0 => [0, 1, 2],
        1 => [0, 2, 1],
        2 => [1, 0, 2],
        3 => [1, 2, 0],
        4 => [2, 0, 1],
        _ => [2, 1, 0],
    };
    let mut x = w;
    let mut i = 0;
    while i < 3 {
        let k = perm[i];
        if (k == 0 && p) || (k == 1 && t) || (k == 2 && q) {
            x = mark(x, k);
        }
        i += 1;
    }
    x
}

/// forall card x 8 mark subsets x 6 application orders
pub fn flags<S: Src>(s: &mut S) {
    let (r, su, w) = draw_card(s);
    let p = s.bool();
    let t = s.bool();
    let q = s.bool();
    let order = s.below(6);
    reach!(s, p && t && q, "C20.flags.reach_all_marks");
    reach!(s, !p && !t && !q, "C20.flags.reach_no_marks");
    let m = mark_all(w, p, t, q, order);
    // only the top three bits are set, one per mark
    check!(s, m & 0x1FFF_FFFF == w, "C20.flags.low_bits_unchanged");
    check!(s, m >> 29 == (p as u32) | ((t as u32) << 1) | ((q as u32) << 2), "C20.flags.top_bits");
    // fields and characters read the same
    check!(s, m.get_card_rank() == rank_enum(r) && m.get_card_suit() == suit_enum(su), "C20.flags.rank_suit_same");
    check!(s, m.get_rank_prime() == PRIME[r as usize], "C20.flags.prime_same");
    check!(s, m.get_rank_bit() == w.get_rank_bit() && m.get_rank_flag() == w.get_rank_flag(), "C20.flags.rank_bits_same");
    check!(s, m.get_suit_bit() == w.get_suit_bit() && m.get_suit_flag() == w.get_suit_flag(), "C20.flags.suit_bits_same");
    check!(s, m.get_rank_char() == RANK_CHAR[r as usize] && m.get_suit_char() == SUIT_GLYPH[su as usize] && m.get_suit_letter() == SUIT_LETTER[su as usize], "C20.flags.chars_same");
    // marking is idempotent
    check!(s, m.flag_as_pair().flag_as_pair() == m.flag_as_pair(), "C20.flags.pair_idempotent");
    check!(s, m.flag_as_trips().flag_as_trips() == m.flag_as_trips(), "C20.flags.trips_idempotent");
    check!(s, m.flag_as_quads().flag_as_quads() == m.flag_as_quads(), "C20.flags.quads_idempotent");
    // stripping returns the original card
    check!(s, m.strip_multiples_flags() == w, "C20.flags.strip");
    check!(s, w.strip_multiples_flags() == w, "C20.flags.strip_unmarked");
}

/// every marked word is above every unmarked card; quads above trips above pair
pub fn order<S: Src>(s: &mut S) {
    let (_, _, w1) = draw_card(s);
    let (_, _, w2) = draw_card(s);
    let (p1, t1, q1) = (s.bool(), s.bool(), s.bool());
    let (p2, t2, q2) = (s.bool(), s.bool(), s.bool());
    let m1 = mark_all(w1, p1, t1, q1, 0);
    let m2 = mark_all(w2, p2, t2, q2, 0);
    reach!(s, q1 && !q2 && w1 < w2, "C20.order.reach_quads_on_lower_card");
    if (p1 || t1 || q1) && !(p2 || t2 || q2) {
        check!(s, m1 > m2, "C20.order.marked_above_unmarked");
    }
    if q1 && !q2 {
        check!(s, m1 > m2, "C20.order.quads_above_rest");
    }
    if t1 && !q1 && !t2 && !q2 {
        check!(s, m1 > m2, "C20.order.trips_above_pair");
    }
    if p1 && !t1 && !q1 && !p2 && !t2 && !q2 {
        check!(s, m1 > m2, "C20.order.pair_above_unmarked");
    }
}
