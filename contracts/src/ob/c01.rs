//! C01 – five-card rank value is the hand's exact poker strength ordinal.
//!
//! Decomposition (DESIGN.md 6/C01): rep_* (every class's canonical hand, real code end
//! to end) + k1 (mask / flush / product of any hand in any order) + k3 (the value is a
//! function of that triple via the tables) + entry_points (the wrappers delegate).
//! direct_* (thorough tier) discharge the composition mechanically per path.
use super::c13::{draw_hand5, same_suit, sort5_desc};
use super::tables::*;
use crate::spec::card::*;
use crate::spec::poker::*;
use crate::src::Src;
use crate::stubs;
use ckc_rs::cards::five::Five;
use ckc_rs::cards::{HandRanker, HandValidator};
use ckc_rs::evaluate;
use ckc_rs::hand_rank::HandRank;

/// K1: forall five distinct cards in any slot order
pub fn k1<S: Src>(s: &mut S) {
    let (r, su, w) = draw_hand5(s);
    assume!(s, all_distinct(&w));
    reach!(s, same_suit(&su), "C01.k1.reach_flush");
    reach!(s, r[0] == r[1] && r[1] == r[2] && r[2] == r[3], "C01.k1.reach_quads");
    let h = Five::from(w);
    let mask = (1u32 << r[0]) | (1u32 << r[1]) | (1u32 << r[2]) | (1u32 << r[3]) | (1u32 << r[4]);
    check!(s, h.or_rank_bits() == mask, "C01.k1.or_rank_bits");
    check!(s, h.is_flush() == same_suit(&su), "C01.k1.is_flush");
    // the product of the five rank primes as a mathematical integer (u64 cannot wrap here)
    let prod: u64 = PRIME[r[0] as usize] as u64 * PRIME[r[1] as usize] as u64 * PRIME[r[2] as usize] as u64 * PRIME[r[3] as usize] as u64 * PRIME[r[4] as usize] as u64;
    check!(s, h.multiply_primes() as u64 == prod, "C01.k1.multiply_primes_exact_no_wrap");
    check!(s, prod <= u32::MAX as u64, "C01.k1.product_fits_u32");
}

/// the table walk the evaluation is specified by (over the .snip files)
fn table_walk(i: usize, flush: bool, key: usize) -> u16 {
    if flush {
        FLUSHES[i]
    } else if UNIQUE_5[i] != 0 {
        UNIQUE_5[i]
    } else {
        let idx = stubs::search_index(key);
        if idx < 4888 && PRODUCTS[idx] as usize == key {
            VALUES[idx]
        } else {
            0
        }
    }
}

/// K3: forall five words whose OR-ed rank field is a table index: the value is the
/// table walk over (mask, flush, product) – a function of that triple only.
/// find_in_products is replaced by its contract (total, < 4888, function of the key).
pub fn k3<S: Src>(s: &mut S) {
    let w = [s.u32(), s.u32(), s.u32(), s.u32(), s.u32()];
    let or = w[0] | w[1] | w[2] | w[3] | w[4];
    let i = (or >> 16) as usize;
    assume!(s, i <= 7936);
    let h = Five::from(w);
    // the triple as the code itself computes it (k1 pins these three functions to the
    // order-independent mathematical values on real hands); stating k3 over them keeps it
    // independent of how the product or the OR is associated
    let flush = h.is_flush();
    let key = h.multiply_primes();
    check!(s, h.or_rank_bits() as usize == i, "C01.k3.or_rank_bits_is_or_of_rank_fields");
    reach!(s, flush, "C01.k3.reach_flush");
    reach!(s, !flush && UNIQUE_5[i] != 0, "C01.k3.reach_unique");
    reach!(s, !flush && UNIQUE_5[i] == 0, "C01.k3.reach_product_search");
    let got = h.hand_rank_value();
    let want = table_walk(i, flush, key);
    check!(s, got == want, "C01.k3.value_is_table_walk_of_triple");
}

pub fn canonical(t: &[u8; 5], flush: bool) -> [u32; 5] {
    let su: [u8; 5] = if flush { [3, 3, 3, 3, 3] } else { [0, 1, 2, 3, 0] };
    [layout(t[0], su[0]), layout(t[1], su[1]), layout(t[2], su[2]), layout(t[3], su[3]), layout(t[4], su[4])]
}

/// which classes a rep_/direct_ harness covers
fn in_group(group: u8, cat: u8) -> bool {
    match group {
        0 => cat == CAT_STRAIGHT_FLUSH || cat == CAT_FLUSH || cat == CAT_STRAIGHT || cat == CAT_HIGH_CARD,
        1 => cat == CAT_QUADS,
        2 => cat == CAT_FULL_HOUSE,
        3 => cat == CAT_TRIPS,
        4 => cat == CAT_TWO_PAIR,
        5 => cat == CAT_PAIR,
        6 => cat == CAT_STRAIGHT_FLUSH || cat == CAT_FLUSH,
        _ => cat == CAT_STRAIGHT || cat == CAT_HIGH_CARD,
    }
}

/// representatives: for EVERY class of the group (symbolic sorted rank tuple and flush
/// flag) the canonical hand of the class evaluates to ordinal(class) through the real code.
fn rep<S: Src>(s: &mut S, group: u8) {
    let t = [s.below(13), s.below(13), s.below(13), s.below(13), s.below(13)];
    let flush = s.bool();
    assume!(s, is_class_tuple(&t));
    assume!(s, distinct5(&t) || !flush);
    let cat = category(&t, flush);
    assume!(s, in_group(group, cat));
    let w = canonical(&t, flush);
    let h = Five::from(w);
    let v = h.hand_rank_value();
    check!(s, v == ordinal(&t, flush), "C01.rep.value_is_ordinal");
    check!(s, v >= 1 && v <= 7462, "C01.rep.value_in_range");
}

pub fn rep_distinct<S: Src>(s: &mut S) {
    rep(s, 0)
}
pub fn rep_quads<S: Src>(s: &mut S) {
    rep(s, 1)
}
pub fn rep_full_house<S: Src>(s: &mut S) {
    rep(s, 2)
}
pub fn rep_trips<S: Src>(s: &mut S) {
    rep(s, 3)
}
pub fn rep_two_pair<S: Src>(s: &mut S) {
    rep(s, 4)
}
pub fn rep_pair<S: Src>(s: &mut S) {
    rep(s, 5)
}

/// direct: forall five distinct cards in ANY slot order and suit assignment, real code
/// end to end, no stubs: value == ordinal of the hand's class
fn direct<S: Src>(s: &mut S, group: u8) {
    let (r, su, w) = draw_hand5(s);
    assume!(s, all_distinct(&w));
    let t = sort5_desc(&r);
    let flush = same_suit(&su);
    let cat = category(&t, flush);
    assume!(s, in_group(group, cat));
    let h = Five::from(w);
    check!(s, h.hand_rank_value() == ordinal(&t, flush), "C01.direct.value_is_ordinal");
}

pub fn direct_flush<S: Src>(s: &mut S) {
    direct(s, 6)
}
pub fn direct_distinct_nonflush<S: Src>(s: &mut S) {
    direct(s, 7)
}
pub fn direct_quads<S: Src>(s: &mut S) {
    direct(s, 1)
}
pub fn direct_full_house<S: Src>(s: &mut S) {
    direct(s, 2)
}
pub fn direct_trips<S: Src>(s: &mut S) {
    direct(s, 3)
}
pub fn direct_two_pair<S: Src>(s: &mut S) {
    direct(s, 4)
}
/// one pair, split by WHICH two slots hold the pair (the single query over all pair hands does
/// not finish in an hour): the ten slot pairs together cover every pair hand
fn direct_pair_slots<S: Src>(s: &mut S, i: usize, j: usize) {
    let (r, su, w) = draw_hand5(s);
    assume!(s, all_distinct(&w));
    assume!(s, r[i] == r[j]);
    let t = sort5_desc(&r);
    let flush = same_suit(&su);
    assume!(s, category(&t, flush) == CAT_PAIR);
    let h = Five::from(w);
    check!(s, h.hand_rank_value() == ordinal(&t, flush), "C01.direct.value_is_ordinal");
}

macro_rules! direct_pair_ob {
    ($f:ident, $i:expr, $j:expr) => {
        pub fn $f<S: Src>(s: &mut S) {
            direct_pair_slots(s, $i, $j)
        }
    };
}
direct_pair_ob!(direct_pair_01, 0, 1);
direct_pair_ob!(direct_pair_02, 0, 2);
direct_pair_ob!(direct_pair_03, 0, 3);
direct_pair_ob!(direct_pair_04, 0, 4);
direct_pair_ob!(direct_pair_12, 1, 2);
direct_pair_ob!(direct_pair_13, 1, 3);
direct_pair_ob!(direct_pair_14, 1, 4);
direct_pair_ob!(direct_pair_23, 2, 3);
direct_pair_ob!(direct_pair_24, 2, 4);
direct_pair_ob!(direct_pair_34, 3, 4);

/// any hand, any order (used natively by the concretiser; as a Kani harness it is the
/// monolithic query that does not finish – registered in no tier)
pub fn direct_any<S: Src>(s: &mut S) {
    let (r, su, w) = draw_hand5(s);
    assume!(s, all_distinct(&w));
    let t = sort5_desc(&r);
    let flush = same_suit(&su);
    let h = Five::from(w);
    let want = ordinal(&t, flush);
    check!(s, h.hand_rank_value() == want, "C01.direct.value_is_ordinal");
    check!(s, h.hand_rank().value == want, "C01.direct.hand_rank_value_field");
    check!(s, h.hand_rank_value_validated() == want, "C01.direct.validated");
    check!(s, evaluate::five_cards(w) == want, "C01.direct.free_function");
}

/// the five-card entry points all delegate to the one evaluation: with
/// hand_rank_value_and_hand replaced by "returns (v, self)" for an arbitrary v,
/// forall words: hand_rank_value == v and hand_rank == from(v); on five distinct real
/// cards (the domain of C01) the validated form and the free function also return v.
/// Nothing is claimed here about WHICH non-hands are rejected (that is C04.validated_five):
/// on other words the validated forms return normally with v or 0.
pub fn entry_points<S: Src>(s: &mut S) {
    let w = [s.u32(), s.u32(), s.u32(), s.u32(), s.u32()];
    let v = s.u16();
    stubs::set_fixed(v, w);
    reach!(s, valid_hand(&w), "C01.entry_points.reach_valid");
    reach!(s, !valid_hand(&w), "C01.entry_points.reach_invalid");
    let h = Five::from(w);
    // natively the real evaluation runs: v is then whatever it returns
    #[cfg(not(kani))]
    let v = {
        let _ = v;
        if !valid_hand(&w) {
            // the unvalidated entry points are only specified on hands they accept
            return;
        }
        h.hand_rank_value_and_hand().0
    };
    check!(s, h.hand_rank_value() == v, "C01.entry_points.hand_rank_value_delegates");
    check!(s, h.hand_rank() == HandRank::from(v), "C01.entry_points.hand_rank_is_from_value");
    let vv = h.hand_rank_value_validated();
    let fv = evaluate::five_cards(w);
    if valid_hand(&w) {
        check!(s, vv == v, "C01.entry_points.validated_same_value_on_real_hands");
        check!(s, fv == v, "C01.entry_points.free_function_same_value_on_real_hands");
    } else {
        check!(s, vv == v || vv == 0, "C01.entry_points.validated_returns_value_or_zero");
        check!(s, fv == vv, "C01.entry_points.free_function_is_validated");
    }
}

/// C04 for five slots and the free function, forall words: validated ranking is 0 exactly
/// when the hand is not valid (every slot one of the 52 card words, no two equal) and
/// otherwise the value the evaluation returns; invalid hands are not evaluated.
pub fn validated_five<S: Src>(s: &mut S) {
    let w = [s.u32(), s.u32(), s.u32(), s.u32(), s.u32()];
    let v = s.u16();
    stubs::set_fixed(v, w);
    reach!(s, valid_hand(&w), "C04.validated_five.reach_valid");
    reach!(s, all_distinct(&w) && !all_cards(&w), "C04.validated_five.reach_near_miss");
    let h = Five::from(w);
    #[cfg(not(kani))]
    let v = {
        let _ = v;
        if valid_hand(&w) {
            h.hand_rank_value_and_hand().0
        } else {
            0
        }
    };
    let want = if valid_hand(&w) { v } else { 0 };
    check!(s, h.is_valid() == valid_hand(&w), "C04.validated_five.is_valid_exact");
    check!(s, h.hand_rank_value_validated() == want, "C04.validated_five.zero_iff_not_valid");
    check!(s, evaluate::five_cards(w) == want, "C04.validated_five.free_function_zero_iff_not_valid");
}
