//! C14 – bit-set card form and word form are mutually inverse over the 52 cards.
use super::common::*;
use crate::spec::card::*;
use crate::spec::names::NAMED_BC;
use crate::src::Src;
use ckc_rs::cards::binary_card::{BinaryCard, BC64};
use ckc_rs::deck::POKER_DECK;
use ckc_rs::{CKCNumber, PokerCard};

/// forall w:u32. from_ckc(w) == (is_card(w) ? bit_of(rank, suit) : empty set)
pub fn from_ckc<S: Src>(s: &mut S) {
    let w = s.u32();
    reach!(s, is_card(w), "C14.from_ckc.reach_card");
    reach!(s, !is_card(w) && w != 0, "C14.from_ckc.reach_noncard");
    let want = match decode(w) {
        Some((r, su)) => bit_of(r, su),
        None => 0,
    };
    check!(s, <BinaryCard as BC64>::from_ckc(w) == want, "C14.from_ckc.exact");
}

/// forall b:u64. from_binary_card(b) == (b is exactly one card bit ? that card : blank)
pub fn from_binary_card<S: Src>(s: &mut S) {
    let b = s.u64();
    let single = b != 0 && (b & (b - 1)) == 0 && b < (1u64 << 52);
    reach!(s, single, "C14.from_binary_card.reach_single");
    reach!(s, b != 0 && !single && b < (1u64 << 52), "C14.from_binary_card.reach_multi");
    reach!(s, b >= (1u64 << 52) && (b & (b - 1)) == 0, "C14.from_binary_card.reach_overflow_bit");
    let want = if single {
        let (r, su) = at_deck_pos(51 - b.trailing_zeros() as u8);
        layout(r, su)
    } else {
        0
    };
    check!(s, <CKCNumber as PokerCard>::from_binary_card(b) == want, "C14.from_binary_card.exact");
}

/// the 52 round trips, the bit constants, and the two decks in step
pub fn round_trip<S: Src>(s: &mut S) {
    let (r, su, w) = draw_card(s);
    let b = <BinaryCard as BC64>::from_ckc(w);
    check!(s, b == bit_of(r, su), "C14.round_trip.bit_position");
    check!(s, <CKCNumber as PokerCard>::from_binary_card(b) == w, "C14.round_trip.word_bit_word");
    check!(s, <BinaryCard as BC64>::from_ckc(<CKCNumber as PokerCard>::from_binary_card(b)) == b, "C14.round_trip.bit_word_bit");
    check!(s, NAMED_BC[r as usize][su as usize] == bit_of(r, su), "C14.round_trip.named_bit_constant");
    let i = deck_pos(r, su) as usize;
    check!(s, <BinaryCard as BC64>::DECK[i] == 1u64 << (51 - i as u32), "C14.round_trip.bit_deck_order");
    check!(s, <BinaryCard as BC64>::from_ckc(POKER_DECK.arr()[i]) == <BinaryCard as BC64>::DECK[i], "C14.round_trip.decks_in_step");
    check!(s, <BinaryCard as BC64>::BLANK == 0, "C14.round_trip.blank");
}
