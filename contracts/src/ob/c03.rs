//! C03 – reported best hand is a sorted five-card witness drawn from the input.
use super::c02::draw_cards;
use crate::spec::card::*;
use crate::src::Src;
use crate::stubs::GhostV;
use ckc_rs::cards::five::Five;
use ckc_rs::cards::seven::Seven;
use ckc_rs::cards::six::Six;
use ckc_rs::cards::HandRanker;

/// five-card input: the reported hand is the input unchanged (forall words that index
/// the tables; the product search replaced by its contract)
pub fn five_identity<S: Src>(s: &mut S) {
    let w = [s.u32(), s.u32(), s.u32(), s.u32(), s.u32()];
    assume!(s, ((w[0] | w[1] | w[2] | w[3] | w[4]) >> 16) <= 7936);
    reach!(s, valid_hand(&w), "C03.five_identity.reach_valid_hand");
    let h = Five::from(w);
    let (v, hand) = h.hand_rank_value_and_hand();
    check!(s, hand.to_arr()[0] == w[0] && hand.to_arr()[1] == w[1] && hand.to_arr()[2] == w[2] && hand.to_arr()[3] == w[3] && hand.to_arr()[4] == w[4], "C03.five_identity.hand_unchanged");
    check!(s, h.hand_rank_value() == v, "C03.five_identity.value_half_agrees");
}

fn witness_checks<S: Src>(s: &mut S, g: &GhostV, v: u16, hand: &Five) {
    // V is an arbitrary function here, so "every five-subset has value 0" is a possible ghost
    // world; for distinct real cards it cannot happen (C01), and the property says nothing about
    // it: no claim is made when the reported value is 0.
    reach!(s, v != 0, "C03.witness.reach_real_value");
    if v == 0 {
        return;
    }
    let a = hand.to_arr();
    // five distinct cards arranged in descending card order
    check!(s, a[0] > a[1] && a[1] > a[2] && a[2] > a[3] && a[3] > a[4], "C03.witness.strictly_descending");
    match g.mask(&a) {
        None => {
            check!(s, false, "C03.witness.cards_taken_from_input");
        }
        Some(m) => {
            check!(s, m.count_ones() == 5, "C03.witness.five_distinct_input_cards");
            // ranking the reported hand on its own gives the reported value
            check!(s, g.v(m) == v, "C03.witness.ranks_to_reported_value");
        }
    }
    check!(s, all_cards(&a), "C03.witness.real_cards");
}

/// forall six distinct real cards in any slot order (five-card evaluation = ghost V)
pub fn six_witness<S: Src>(s: &mut S) {
    let (cards, w6) = draw_cards::<S, 6>(s);
    assume!(s, all_distinct(&w6));
    let g = GhostV::install_any(cards, 6);
    let (v, hand) = Six::from(w6).hand_rank_value_and_hand();
    witness_checks(s, &g, v, &hand);
}

/// forall seven distinct real cards in any slot order (five-card evaluation = ghost V)
pub fn seven_witness<S: Src>(s: &mut S) {
    let (cards, w7) = draw_cards::<S, 7>(s);
    assume!(s, all_distinct(&w7));
    let g = GhostV::install_any(cards, 7);
    let (v, hand) = Seven::from(w7).hand_rank_value_and_hand();
    witness_checks(s, &g, v, &hand);
}
