//! C06 – hand rank name and class describe exactly the poker class of the value.
use crate::spec::class_table::CLASS_TABLE;
use crate::spec::poker::*;
use crate::src::Src;
use ckc_rs::hand_rank::{HandRank, HandRankClass, HandRankName};

/// category enumeration in strength order, by name
pub const NAME_TABLE: [HandRankName; 10] = [
    HandRankName::StraightFlush,
    HandRankName::FourOfAKind,
    HandRankName::FullHouse,
    HandRankName::Flush,
    HandRankName::Straight,
    HandRankName::ThreeOfAKind,
    HandRankName::TwoPair,
    HandRankName::Pair,
    HandRankName::HighCard,
    HandRankName::Invalid,
];

/// forall v: u16
pub fn name_class_all<S: Src>(s: &mut S) {
    let v = s.u16();
    reach!(s, v == 0, "C06.name_class_all.reach_zero");
    reach!(s, v == 7462, "C06.name_class_all.reach_last");
    reach!(s, v > 7462, "C06.name_class_all.reach_above");
    reach!(s, v >= 323 && v <= 1599, "C06.name_class_all.reach_flush_range");
    let (cat, idx) = class_of_value(v);
    let invalid = v == 0 || v > 7462;
    let name = HandRank::determine_name(&v);
    let class = HandRank::determine_class(&v);
    check!(s, name == NAME_TABLE[cat as usize], "C06.name_class_all.name");
    check!(s, class == CLASS_TABLE[idx as usize].0, "C06.name_class_all.class");
    check!(s, (name == HandRankName::Invalid) == invalid, "C06.name_class_all.name_invalid_iff");
    check!(s, (class == HandRankClass::Invalid) == invalid, "C06.name_class_all.class_invalid_iff");
    let hr = HandRank::from(v);
    check!(s, hr.value == v && hr.name == name && hr.class == class, "C06.name_class_all.from_fills_fields");
    check!(s, hr.is_invalid() == invalid, "C06.name_class_all.is_invalid");
    check!(s, hr.is_a_valid_hand_rank(), "C06.name_class_all.self_consistent");
    check!(s, HandRank::default() == HandRank::from(0), "C06.name_class_all.default_is_zero");
    // the class belongs to the category
    check!(s, CLASS_TABLE[idx as usize].1 == cat, "C06.name_class_all.class_within_category");
}

/// every one of the 309 non-Invalid classes is the class of a contiguous, non-empty
/// value range: class index is monotone in the value, steps by at most one, starts at
/// the first class and ends at the last
pub fn class_ranges<S: Src>(s: &mut S) {
    let v = s.u16();
    assume!(s, v >= 1 && v < 7462);
    let c0 = HandRank::determine_class(&v) as u16;
    let c1 = HandRank::determine_class(&(v + 1)) as u16;
    reach!(s, c1 == c0 + 1, "C06.class_ranges.reach_boundary");
    reach!(s, c1 == c0, "C06.class_ranges.reach_interior");
    check!(s, c1 == c0 || c1 == c0 + 1, "C06.class_ranges.step_zero_or_one");
    check!(s, HandRank::determine_class(&1) as u16 == 0, "C06.class_ranges.first_class_at_1");
    check!(s, HandRank::determine_class(&7462) as u16 == 308, "C06.class_ranges.last_class_at_7462");
    check!(s, HandRankClass::Invalid as u16 == 309, "C06.class_ranges.invalid_is_310th");
    let n0 = HandRank::determine_name(&v) as u16;
    let n1 = HandRank::determine_name(&(v + 1)) as u16;
    check!(s, n1 == n0 || n1 == n0 + 1, "C06.class_ranges.name_step_zero_or_one");
    check!(s, HandRank::determine_name(&1) as u16 == 0 && HandRank::determine_name(&7462) as u16 == 8, "C06.class_ranges.name_ends");
}

/// the variant identifiers are in strength order (declaration index == table index)
pub fn class_table_order<S: Src>(s: &mut S) {
    let i = s.u16();
    assume!(s, i < 310);
    check!(s, CLASS_TABLE[i as usize].0 as u16 == i, "C06.class_table_order.variant_index");
    let j = s.below(10);
    check!(s, NAME_TABLE[j as usize] as u8 == j, "C06.class_table_order.name_index");
}

/// native only (concretiser body): the rank reported for a hand describes its actual cards
pub fn cards_link_native<S: Src>(s: &mut S) {
    use super::c13::{draw_hand5, same_suit, sort5_desc};
    use crate::spec::card::all_distinct;
    use ckc_rs::cards::five::Five;
    use ckc_rs::cards::HandRanker;
    let (r, su, w) = draw_hand5(s);
    assume!(s, all_distinct(&w));
    let t = sort5_desc(&r);
    let (cat, idx) = semantic_class(&t, same_suit(&su));
    let hr = Five::from(w).hand_rank();
    check!(s, hr.name == NAME_TABLE[cat as usize], "C06.cards_link.category_describes_cards");
    check!(s, hr.class == CLASS_TABLE[idx as usize].0, "C06.cards_link.class_describes_cards");
    check!(s, hr.value == ordinal(&t, same_suit(&su)), "C06.cards_link.value");
    check!(s, hr.is_a_valid_hand_rank() && !hr.is_invalid(), "C06.cards_link.consistent");
}

/// link between cards, value, category and class on the real code: for EVERY class of the
/// group (symbolic sorted tuple + flush flag) the canonical hand's hand_rank() carries a
/// valid value and the category and class of the cards; the C13 predicates agree with the
/// reported category.
fn link_rep<S: Src>(s: &mut S, group: u8) {
    use super::c01::canonical;
    use ckc_rs::cards::five::Five;
    use ckc_rs::cards::HandRanker;
    let t = [s.below(13), s.below(13), s.below(13), s.below(13), s.below(13)];
    let flush = s.bool();
    assume!(s, is_class_tuple(&t));
    assume!(s, distinct5(&t) || !flush);
    let (cat, idx) = semantic_class(&t, flush);
    let in_group = match group {
        0 => cat == CAT_STRAIGHT_FLUSH || cat == CAT_FLUSH || cat == CAT_STRAIGHT || cat == CAT_HIGH_CARD,
        1 => cat == CAT_QUADS,
        2 => cat == CAT_FULL_HOUSE,
        3 => cat == CAT_TRIPS,
        4 => cat == CAT_TWO_PAIR,
        _ => cat == CAT_PAIR,
    };
    assume!(s, in_group);
    let h = Five::from(canonical(&t, flush));
    let hr = h.hand_rank();
    check!(s, hr.value >= 1 && hr.value <= 7462, "C06.link_rep.value_is_a_real_rank");
    check!(s, hr.name == NAME_TABLE[cat as usize], "C06.link_rep.category_describes_cards");
    check!(s, hr.class == CLASS_TABLE[idx as usize].0, "C06.link_rep.class_describes_cards");
    check!(s, !hr.is_invalid(), "C06.link_rep.not_invalid");
    // C13: predicates agree with the category obtained by ranking the same hand
    check!(s, h.is_straight_flush() == (hr.name == HandRankName::StraightFlush), "C06.link_rep.straight_flush_predicate_agrees");
    check!(s, h.is_flush() == (hr.name == HandRankName::StraightFlush || hr.name == HandRankName::Flush), "C06.link_rep.flush_predicate_agrees");
    check!(s, h.is_straight() == (hr.name == HandRankName::StraightFlush || hr.name == HandRankName::Straight), "C06.link_rep.straight_predicate_agrees");
}

pub fn link_rep_distinct<S: Src>(s: &mut S) {
    link_rep(s, 0)
}
pub fn link_rep_quads<S: Src>(s: &mut S) {
    link_rep(s, 1)
}
pub fn link_rep_full_house<S: Src>(s: &mut S) {
    link_rep(s, 2)
}
pub fn link_rep_trips<S: Src>(s: &mut S) {
    link_rep(s, 3)
}
pub fn link_rep_two_pair<S: Src>(s: &mut S) {
    link_rep(s, 4)
}
pub fn link_rep_pair<S: Src>(s: &mut S) {
    link_rep(s, 5)
}
