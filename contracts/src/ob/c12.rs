//! C12 – text parsing is total; a token is a card iff it starts with rank+suit symbols.
use super::common::*;
use crate::spec::card::*;
use crate::src::Src;
use ckc_rs::parse::get_rank_and_suit;
use ckc_rs::{CKCNumber, CardRank, CardSuit, PokerCard};

/// forall Unicode scalar values: the rank symbol table
pub fn rank_char<S: Src>(s: &mut S) {
    let c = s.char();
    reach!(s, c == '0', "C12.rank_char.reach_zero_is_ten");
    reach!(s, c as u32 > 0xFFFF, "C12.rank_char.reach_astral");
    let want = match rank_of_char(c) {
        Some(r) => rank_enum(r),
        None => CardRank::BLANK,
    };
    check!(s, CardRank::from_char(c) == want, "C12.rank_char.table");
}

/// forall Unicode scalar values: the suit symbol table
pub fn suit_char<S: Src>(s: &mut S) {
    let c = s.char();
    reach!(s, c == '♤', "C12.suit_char.reach_outline_spade");
    reach!(s, c == 'c', "C12.suit_char.reach_lowercase");
    let want = match suit_of_char(c) {
        Some(su) => suit_enum(su),
        None => CardSuit::BLANK,
    };
    check!(s, CardSuit::from_char(c) == want, "C12.suit_char.table");
}

fn two_char_str<'a>(buf: &'a mut [u8; 8], c0: char, c1: char) -> &'a str {
    let n0 = c0.encode_utf8(&mut buf[..]).len();
    let n1 = c1.encode_utf8(&mut buf[n0..]).len();
    // the bytes were produced by encode_utf8, so they are valid UTF-8
    unsafe { core::str::from_utf8_unchecked(&buf[..n0 + n1]) }
}

/// rendering any card with its rank and suit characters (glyph or letter) parses back
pub fn render_parse<S: Src>(s: &mut S) {
    let (r, su, w) = draw_card(s);
    let letter = s.bool();
    reach!(s, letter, "C12.render_parse.reach_letter");
    reach!(s, !letter, "C12.render_parse.reach_glyph");
    let rc = w.get_rank_char();
    let sc = if letter { w.get_suit_letter() } else { w.get_suit_char() };
    let mut buf = [0u8; 8];
    let text = two_char_str(&mut buf, rc, sc);
    check!(s, <CKCNumber as PokerCard>::from_index(text) == w, "C12.render_parse.round_trip");
    let (pr, ps) = get_rank_and_suit(text);
    check!(s, pr == rank_enum(r) && ps == suit_enum(su), "C12.render_parse.rank_and_suit");
}

/// a token of two arbitrary characters (any Unicode scalar values): a card iff the
/// first is a rank symbol and the second a suit symbol
pub fn two_chars<S: Src>(s: &mut S) {
    let c0 = s.char();
    let c1 = s.char();
    reach!(s, rank_of_char(c0).is_some() && suit_of_char(c1).is_some(), "C12.two_chars.reach_card");
    reach!(s, rank_of_char(c0).is_some() && suit_of_char(c1).is_none(), "C12.two_chars.reach_bad_suit");
    reach!(s, (c0 as u32) > 0x7FF && (c1 as u32) > 0xFFFF, "C12.two_chars.reach_multibyte");
    let mut buf = [0u8; 8];
    let text = two_char_str(&mut buf, c0, c1);
    let want = parse_two_chars(Some(c0), Some(c1));
    check!(s, <CKCNumber as PokerCard>::from_index(text) == want, "C12.two_chars.card_iff_rank_then_suit");
}

/// tokens shorter than two characters are blank
pub fn short_tokens<S: Src>(s: &mut S) {
    let c0 = s.char();
    let mut buf = [0u8; 4];
    let n0 = c0.encode_utf8(&mut buf[..]).len();
    let one = unsafe { core::str::from_utf8_unchecked(&buf[..n0]) };
    check!(s, <CKCNumber as PokerCard>::from_index(one) == 0, "C12.short_tokens.one_char_is_blank");
    check!(s, <CKCNumber as PokerCard>::from_index("") == 0, "C12.short_tokens.empty_is_blank");
    let (r, su) = get_rank_and_suit(one);
    check!(s, r == CardRank::BLANK && su == CardSuit::BLANK, "C12.short_tokens.rank_and_suit_blank");
}
