pub mod common;
pub mod c10;
