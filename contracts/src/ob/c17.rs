//! C17 – starting-hand score equals the Chen formula for every two-card hand.
use super::common::*;
use crate::spec::chen;
use crate::src::Src;
use ckc_rs::cards::two::Two;
use ckc_rs::{PokerCard, Shifty};

/// forall ordered pairs of distinct cards
pub fn chen_formula<S: Src>(s: &mut S) {
    let (r1, s1, w1) = draw_card(s);
    let (r2, s2, w2) = draw_card(s);
    assume!(s, w1 != w2);
    reach!(s, r1 == r2, "C17.chen.reach_pair");
    reach!(s, s1 == s2 && r1 + 1 == r2, "C17.chen.reach_suited_connector");
    reach!(s, r1 == 12 && r2 == 0, "C17.chen.reach_ace_deuce");
    let t = Two::new(w1, w2);
    check!(s, t.chen_formula() as i32 == chen::chen(r1, s1, r2, s2), "C17.chen.score");
    check!(s, t.get_gap() == chen::gap(r1, r2), "C17.chen.gap");
    let hi = if r1 > r2 || (r1 == r2 && s1 > s2) { w1 } else { w2 };
    check!(s, t.high_card() == hi, "C17.chen.high_card");
    check!(s, t.is_pocket_pair() == (r1 == r2), "C17.chen.pocket_pair");
    check!(s, t.is_suited() == (s1 == s2), "C17.chen.suited");
    check!(s, t.is_connector() == (chen::gap(r1, r2) == 0), "C17.chen.connector");
    check!(s, t.is_suited_connector() == (s1 == s2 && chen::gap(r1, r2) == 0), "C17.chen.suited_connector");
    // slot order and suit shifting do not matter
    check!(s, Two::new(w2, w1).chen_formula() == t.chen_formula(), "C17.chen.symmetric");
    check!(s, t.shift_suit().chen_formula() == t.chen_formula(), "C17.chen.shift_invariant");
}

/// per-card points, forall cards
pub fn chen_points<S: Src>(s: &mut S) {
    let (r, _, w) = draw_card(s);
    reach!(s, r == 12, "C17.chen_points.reach_ace");
    let p2 = chen::high_points2(r);
    check!(s, w.get_chen_points() * 2.0 == p2 as f32, "C17.chen_points.points");
    check!(s, 0u32.get_chen_points() == 0.0, "C17.chen_points.blank");
}
