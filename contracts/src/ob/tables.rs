//! The four lookup tables of /repo, included from the very `.snip` files that
//! /repo/src/lookups/mod.rs includes (the module is private, so this is the only way
//! to name their contents). Obligation C01.k3 ties the real evaluator's behaviour to
//! these files: if /repo used other data, K3 would fail.
pub const FLUSHES: [u16; 7937] = include!("/repo/src/lookups/flushes.snip");
pub const UNIQUE_5: [u16; 7937] = include!("/repo/src/lookups/unique5.snip");
pub const PRODUCTS: [u32; 4888] = include!("/repo/src/lookups/products.snip");
pub const VALUES: [u16; 4888] = include!("/repo/src/lookups/values.snip");
