//! C04 – validated ranking yields 0 exactly for non-hands, for any 32-bit words.
use crate::spec::card::*;
use crate::src::Src;
use ckc_rs::cards::five::Five;
use ckc_rs::cards::four::Four;
use ckc_rs::cards::seven::Seven;
use ckc_rs::cards::six::Six;
use ckc_rs::cards::three::Three;
use ckc_rs::cards::two::Two;
use ckc_rs::cards::HandValidator;

fn any_noncard(a: &[u32]) -> bool {
    !all_cards(a)
}

macro_rules! valid_ob {
    ($f:ident, $T:ty, $n:expr, $exact_unique:expr) => {
        /// forall words: valid <=> every slot is one of the 52 card words and no two
        /// slots are equal; corrupt <=> some slot is not a card word; contain_blank <=>
        /// some slot is 0
        pub fn $f<S: Src>(s: &mut S) {
            let mut a = [0u32; $n];
            let mut i = 0;
            while i < $n {
                a[i] = s.u32();
                i += 1;
            }
            reach!(s, valid_hand(&a), "C04.valid.reach_valid_hand");
            reach!(s, all_cards(&a) && !all_distinct(&a), "C04.valid.reach_duplicate_cards");
            reach!(s, all_distinct(&a) && !all_cards(&a) && !any_blank(&a), "C04.valid.reach_near_miss_word");
            let h = <$T>::from(a);
            check!(s, h.is_valid() == valid_hand(&a), "C04.valid.is_valid_exact");
            check!(s, h.is_corrupt() == any_noncard(&a), "C04.valid.is_corrupt_exact");
            check!(s, h.contain_blank() == any_blank(&a), "C04.valid.contain_blank_exact");
            if $exact_unique {
                check!(s, h.are_unique() == all_distinct(&a), "C04.valid.are_unique_exact");
            } else {
                // six / seven: are_unique is exact for hands without the word 0xFFFF_FFFF (which is
                // corrupt anyway), and never claims uniqueness wrongly
                check!(s, !h.are_unique() || all_distinct(&a), "C04.valid.are_unique_sound");
                if count_of(&a, u32::MAX) == 0 {
                    check!(s, h.are_unique() == all_distinct(&a), "C04.valid.are_unique_exact");
                }
            }
        }
    };
}

valid_ob!(valid_2, Two, 2, true);
valid_ob!(valid_3, Three, 3, true);
valid_ob!(valid_4, Four, 4, true);
valid_ob!(valid_5, Five, 5, true);
valid_ob!(valid_6, Six, 6, false);
valid_ob!(valid_7, Seven, 7, false);
