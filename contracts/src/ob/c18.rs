//! C18 – deck and published combination tables are complete and duplicate-free.
use crate::spec::card::*;
use crate::src::Src;
use ckc_rs::cards::four::Four;
use ckc_rs::cards::seven::Seven;
use ckc_rs::cards::six::Six;
use ckc_rs::cards::two::Two;
use ckc_rs::cards::HandValidator;
use ckc_rs::deck::{Deck, DECK_SIZE, POKER_DECK};

/// the deck lists each card once in the stated order; access past the end is blank
pub fn deck<S: Src>(s: &mut S) {
    let i = s.usize();
    reach!(s, i == 51, "C18.deck.reach_last");
    reach!(s, i == 52, "C18.deck.reach_len");
    reach!(s, i == usize::MAX, "C18.deck.reach_max");
    let want = if i < 52 {
        let (r, su) = at_deck_pos(i as u8);
        layout(r, su)
    } else {
        0
    };
    check!(s, Deck::get(i) == want, "C18.deck.get");
    check!(s, Deck::len() == 52 && DECK_SIZE == 52, "C18.deck.len");
    if i < 52 {
        check!(s, POKER_DECK.arr()[i] == want, "C18.deck.arr_in_order");
        // each card exactly once: position of a card is determined by (rank, suit)
        let j = s.below(52) as usize;
        check!(s, (POKER_DECK.arr()[i] == POKER_DECK.arr()[j]) == (i == j), "C18.deck.no_duplicates");
    }
}

fn table_has(t: &[Two], a: u32, b: u32) -> bool {
    let mut i = 0;
    while i < t.len() {
        if t[i].first() == a && t[i].second() == b {
            return true;
        }
        i += 1;
    }
    false
}

fn table_count(t: &[Two], a: u32, b: u32) -> usize {
    let mut n = 0;
    let mut i = 0;
    while i < t.len() {
        if t[i].first() == a && t[i].second() == b {
            n += 1;
        }
        i += 1;
    }
    n
}

/// the preset starting-hand tables hold exactly the combinations of their description
pub fn presets<S: Src>(s: &mut S) {
    let s1 = s.below(4);
    let s2 = s.below(4);
    reach!(s, s1 == s2, "C18.presets.reach_suited");
    reach!(s, s1 < s2, "C18.presets.reach_lower_suit_first");
    let (a1, a2) = (layout(12, s1), layout(12, s2));
    let (k2, q2) = (layout(11, s2), layout(10, s2));
    // AA: the 6 ace pairs, higher card first
    check!(s, Two::AA.len() == 6, "C18.presets.aa_len");
    check!(s, table_count(&Two::AA, a1, a2) == if s1 > s2 { 1 } else { 0 }, "C18.presets.aa_exact");
    // AK: all 16; split into 4 suited and 12 offsuit
    check!(s, Two::AK.len() == 16 && Two::AKs.len() == 4 && Two::AKo.len() == 12, "C18.presets.ak_len");
    check!(s, table_count(&Two::AK, a1, k2) == 1, "C18.presets.ak_exact");
    check!(s, table_count(&Two::AKs, a1, k2) == if s1 == s2 { 1 } else { 0 }, "C18.presets.aks_exact");
    check!(s, table_count(&Two::AKo, a1, k2) == if s1 != s2 { 1 } else { 0 }, "C18.presets.ako_exact");
    // AQ suited / offsuit
    check!(s, Two::AQs.len() == 4 && Two::AQo.len() == 12, "C18.presets.aq_len");
    check!(s, table_count(&Two::AQs, a1, q2) == if s1 == s2 { 1 } else { 0 }, "C18.presets.aqs_exact");
    check!(s, table_count(&Two::AQo, a1, q2) == if s1 != s2 { 1 } else { 0 }, "C18.presets.aqo_exact");
    // nothing else is in a table: every entry is of the described form
    let i = s.below(16) as usize;
    let e = Two::AK[i];
    check!(s, decode(e.first()).map(|c| c.0) == Some(12) && decode(e.second()).map(|c| c.0) == Some(11), "C18.presets.ak_entries_are_ace_king");
    check!(s, table_has(&Two::AKs, e.first(), e.second()) != table_has(&Two::AKo, e.first(), e.second()), "C18.presets.ak_is_disjoint_union");
    if i < 12 {
        let q = Two::AQo[i];
        check!(s, decode(q.first()).map(|c| c.0) == Some(12) && decode(q.second()).map(|c| c.0) == Some(10), "C18.presets.aqo_entries_are_ace_queen");
        let o = Two::AKo[i];
        check!(s, decode(o.first()).map(|c| c.0) == Some(12) && decode(o.second()).map(|c| c.0) == Some(11), "C18.presets.ako_entries_are_ace_king");
    }
    if i < 6 {
        let p = Two::AA[i];
        check!(s, decode(p.first()).map(|c| c.0) == Some(12) && decode(p.second()).map(|c| c.0) == Some(12) && p.first() > p.second(), "C18.presets.aa_entries_are_ace_pairs_high_first");
    }
    if i < 4 {
        let q = Two::AQs[i];
        check!(s, decode(q.first()).map(|c| c.0) == Some(12) && decode(q.second()).map(|c| c.0) == Some(10), "C18.presets.aqs_entries_are_ace_queen");
        let k = Two::AKs[i];
        check!(s, decode(k.first()).map(|c| c.0) == Some(12) && decode(k.second()).map(|c| c.0) == Some(11), "C18.presets.aks_entries_are_ace_king");
    }
}

fn row_lt<const K: usize>(a: &[u8; K], b: &[u8; K]) -> bool {
    let mut i = 0;
    while i < K {
        if a[i] != b[i] {
            return a[i] < b[i];
        }
        i += 1;
    }
    false
}

fn increasing_below<const K: usize>(a: &[u8; K], n: u8) -> bool {
    let mut i = 0;
    while i < K {
        if a[i] >= n || (i > 0 && a[i - 1] >= a[i]) {
            return false;
        }
        i += 1;
    }
    true
}

/// 2-of-4, 5-of-6 and 5-of-7: rows are increasing tuples below n, the table is in
/// increasing lexicographic order (hence duplicate-free), and every increasing tuple occurs
pub fn slot_tables<S: Src>(s: &mut S) {
    // 5 of 7
    let t7 = Seven::FIVE_CARD_PERMUTATIONS;
    check!(s, t7.len() == 21, "C18.slot_tables.seven_len");
    let i = s.below(21) as usize;
    check!(s, increasing_below(&t7[i], 7), "C18.slot_tables.seven_rows_increasing");
    if i > 0 {
        check!(s, row_lt(&t7[i - 1], &t7[i]), "C18.slot_tables.seven_lexicographic");
    }
    let c = [s.below(7), s.below(7), s.below(7), s.below(7), s.below(7)];
    if increasing_below(&c, 7) {
        let mut found = false;
        let mut k = 0;
        while k < 21 {
            if t7[k] == c {
                found = true;
            }
            k += 1;
        }
        check!(s, found, "C18.slot_tables.seven_complete");
    }
    // 5 of 6
    let t6 = Six::FIVE_CARD_PERMUTATIONS;
    check!(s, t6.len() == 6, "C18.slot_tables.six_len");
    let i6 = s.below(6) as usize;
    check!(s, increasing_below(&t6[i6], 6), "C18.slot_tables.six_rows_increasing");
    if i6 > 0 {
        check!(s, row_lt(&t6[i6 - 1], &t6[i6]), "C18.slot_tables.six_lexicographic");
    }
    if increasing_below(&c, 6) {
        let mut found = false;
        let mut k = 0;
        while k < 6 {
            if t6[k] == c {
                found = true;
            }
            k += 1;
        }
        check!(s, found, "C18.slot_tables.six_complete");
    }
    // 2 of 4
    let t4 = Four::OMAHA_PERMUTATIONS;
    check!(s, t4.len() == 6, "C18.slot_tables.four_len");
    check!(s, increasing_below(&t4[i6], 4), "C18.slot_tables.four_rows_increasing");
    if i6 > 0 {
        check!(s, row_lt(&t4[i6 - 1], &t4[i6]), "C18.slot_tables.four_lexicographic");
    }
    let c2 = [c[0], c[1]];
    if increasing_below(&c2, 4) {
        let mut found = false;
        let mut k = 0;
        while k < 6 {
            if t4[k] == c2 {
                found = true;
            }
            k += 1;
        }
        check!(s, found, "C18.slot_tables.four_complete");
    }
    reach!(s, increasing_below(&c, 7) && c[4] == 6, "C18.slot_tables.reach_tuple_with_last_slot");
}
