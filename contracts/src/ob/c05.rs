//! C05 – ranking never panics on card-or-blank hands; a blank five is Invalid.
use super::common::*;
use super::tables::PRODUCTS;
use crate::spec::card::*;
use crate::src::Src;
use ckc_rs::cards::five::Five;
use ckc_rs::cards::seven::Seven;
use ckc_rs::cards::six::Six;
use ckc_rs::cards::HandRanker;
use ckc_rs::hand_rank::HandRankName;

/// bounded twin of the Verus obligation C05.find_total (gives the concrete key for a
/// replay): find_in_products returns normally, in range, and finds the key iff present
pub fn find_kb<S: Src>(s: &mut S) {
    let key = s.usize();
    reach!(s, key < 48, "C05.find_kb.reach_below_first_entry");
    reach!(s, key > 104553157, "C05.find_kb.reach_above_last_entry");
    let r = Five::find_in_products(key);
    check!(s, r < 4888, "C05.find_kb.index_in_range");
    if PRODUCTS[r] as usize != key {
        check!(s, r == 0, "C05.find_kb.absent_key_gives_zero");
    }
}

/// table fact used with the search contract: no product is below 48 (so the product of a
/// hand with a blank, 0, is never found)
pub fn products_floor<S: Src>(s: &mut S) {
    let i = s.usize();
    assume!(s, i < 4888);
    check!(s, PRODUCTS[i] >= 48, "C05.products_floor.all_products_at_least_48");
    if i > 0 {
        check!(s, PRODUCTS[i - 1] < PRODUCTS[i], "C05.products_floor.strictly_increasing");
    }
}

fn draw_slots<S: Src, const N: usize>(s: &mut S) -> [u32; N] {
    let mut w = [0u32; N];
    let mut i = 0;
    while i < N {
        w[i] = draw_card_or_blank(s);
        i += 1;
    }
    w
}

/// forall five slots over {52 cards, blank}, any repetition, any order: every entry point
/// returns normally (Kani's panic / overflow / bounds checks are the postcondition; none
/// firing also means the release profile computes the same values). Search = its contract.
pub fn five_safe<S: Src>(s: &mut S) {
    let w: [u32; 5] = draw_slots(s);
    reach!(s, any_blank(&w), "C05.five_safe.reach_blank");
    reach!(s, w[0] == w[1] && w[0] != 0, "C05.five_safe.reach_repeated_card");
    reach!(s, w[0] == 0 && w[1] == 0 && w[2] == 0 && w[3] == 0 && w[4] == 0, "C05.five_safe.reach_all_blank");
    let h = Five::from(w);
    // the postcondition is "returns normally": Kani's panic / overflow / bounds checks
    let (_v, _hand) = h.hand_rank_value_and_hand();
}

/// a five-slot hand that contains a blank is never given a real rank (real search code)
pub fn blank_five_invalid<S: Src>(s: &mut S) {
    let w: [u32; 5] = draw_slots(s);
    assume!(s, any_blank(&w));
    reach!(s, w[4] == 0 && w[0] != 0 && w[1] != 0 && w[2] != 0 && w[3] != 0, "C05.blank_five_invalid.reach_one_blank");
    let h = Five::from(w);
    check!(s, h.hand_rank_value() == 0, "C05.blank_five_invalid.value_zero");
    let hr = h.hand_rank();
    check!(s, hr.value == 0 && hr.name == HandRankName::Invalid && hr.is_invalid(), "C05.blank_five_invalid.rank_invalid");
}

/// forall six slots over {cards, blank} with repetition: all entry points return normally
/// (five-card evaluation = its total contract: any value <= 7462, hand unchanged)
pub fn six_safe<S: Src>(s: &mut S) {
    let w: [u32; 6] = draw_slots(s);
    reach!(s, any_blank(&w), "C05.six_safe.reach_blank");
    reach!(s, w[0] == w[5] && w[0] != 0, "C05.six_safe.reach_repeated_card");
    let h = Six::from(w);
    let (_v, _) = h.hand_rank_value_and_hand();
}

/// forall seven slots over {cards, blank} with repetition: all entry points return normally
pub fn seven_safe<S: Src>(s: &mut S) {
    let w: [u32; 7] = draw_slots(s);
    reach!(s, any_blank(&w), "C05.seven_safe.reach_blank");
    reach!(s, w[0] == w[6] && w[0] != 0, "C05.seven_safe.reach_repeated_card");
    let h = Seven::from(w);
    let (_v, _) = h.hand_rank_value_and_hand();
}
