//! C11 – numeric card order is rank-then-suit; sorting is a descending rearrangement.
use super::common::*;
use crate::spec::card::*;
use crate::src::Src;
use ckc_rs::cards::five::Five;
use ckc_rs::cards::four::Four;
use ckc_rs::cards::seven::Seven;
use ckc_rs::cards::six::Six;
use ckc_rs::cards::three::Three;
use ckc_rs::cards::two::Two;
use ckc_rs::cards::HandValidator;

/// forall two cards: integer order == (rank, suit) lexicographic order; blank below all
pub fn card_order<S: Src>(s: &mut S) {
    let (r1, s1, w1) = draw_card(s);
    let (r2, s2, w2) = draw_card(s);
    reach!(s, r1 == r2 && s1 < s2, "C11.card_order.reach_same_rank");
    reach!(s, r1 < r2 && s1 > s2, "C11.card_order.reach_rank_beats_suit");
    let lex_lt = r1 < r2 || (r1 == r2 && s1 < s2);
    check!(s, (w1 < w2) == lex_lt, "C11.card_order.rank_then_suit");
    check!(s, (w1 == w2) == (r1 == r2 && s1 == s2), "C11.card_order.equal_iff_same");
    check!(s, 0 < w1, "C11.card_order.blank_lowest");
}

macro_rules! sort_ob {
    ($f:ident, $T:ty, $n:expr) => {
        /// forall words: sort() is a non-increasing rearrangement (same multiset),
        /// idempotent, and agrees with sort_in_place()
        pub fn $f<S: Src>(s: &mut S) {
            let mut a = [0u32; $n];
            let mut i = 0;
            while i < $n {
                a[i] = s.u32();
                i += 1;
            }
            reach!(s, a[0] < a[1], "C11.sort.reach_unsorted");
            reach!(s, a[0] == a[1], "C11.sort.reach_duplicate");
            let h = <$T>::from(a);
            let sorted = h.sort();
            let out = sorted.to_arr();
            check!(s, h.to_arr() == a, "C11.sort.copy_leaves_original");
            check!(s, non_increasing(&out), "C11.sort.non_increasing");
            // same multiset: every word x (symbolic, hence all of them) occurs equally often
            let x = s.u32();
            check!(s, count_of(&a, x) == count_of(&out, x), "C11.sort.same_multiset");
            check!(s, sorted.sort().to_arr() == out, "C11.sort.idempotent");
            let mut h2 = h;
            h2.sort_in_place();
            check!(s, h2.to_arr() == out, "C11.sort.in_place_agrees");
        }
    };
}

sort_ob!(sort_2, Two, 2);
sort_ob!(sort_3, Three, 3);
sort_ob!(sort_4, Four, 4);
sort_ob!(sort_5, Five, 5);
sort_ob!(sort_6, Six, 6);
sort_ob!(sort_7, Seven, 7);
