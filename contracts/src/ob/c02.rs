//! C02 – six- and seven-card value is the best five-card hand they contain.
//! (also the value halves of C09)
use super::common::*;
use crate::spec::card::*;
use crate::src::Src;
use crate::stubs::GhostV;
use ckc_rs::cards::seven::Seven;
use ckc_rs::cards::six::Six;
use ckc_rs::cards::HandRanker;

/// N symbolic real cards (in symbolic slot order); returns (cards padded to 7, the N words)
pub fn draw_cards<S: Src, const N: usize>(s: &mut S) -> ([u32; 7], [u32; N]) {
    let mut cards = [0u32; 7];
    let mut w = [0u32; N];
    let mut i = 0;
    while i < N {
        let (_, _, c) = draw_card(s);
        cards[i] = c;
        w[i] = c;
        i += 1;
    }
    (cards, w)
}

/// min of V over ALL weight-5 membership masks of n slots – the subsets are enumerated
/// here independently of the crate's combination tables
pub fn min_over_subsets(g: &GhostV, n: usize) -> u16 {
    let mut best = u16::MAX;
    let mut m = 0u8;
    while (m as usize) < (1usize << n) {
        if m.count_ones() == 5 {
            let v = g.v(m);
            if v < best {
                best = v;
            }
        }
        m += 1;
    }
    best
}

/// forall six distinct real cards, any slot order: value == min over the 6 five-card
/// subsets of the five-card value (ghost V: any evaluator that gives distinct-card fives
/// a value in 1..=7462 depending only on the set of cards – which C01 establishes)
pub fn six_min<S: Src>(s: &mut S) {
    let (cards, w6) = draw_cards::<S, 6>(s);
    assume!(s, all_distinct(&w6));
    let g = GhostV::install(cards, 6);
    let h = Six::from(w6);
    let want = min_over_subsets(&g, 6);
    let (v, _) = h.hand_rank_value_and_hand();
    check!(s, v == want, "C02.six_min.value_is_min_over_five_subsets");
    check!(s, want >= 1 && want <= 7462, "C02.six_min.in_range");
}

/// forall seven distinct real cards, any slot order: value == min over the 21 subsets
pub fn seven_min<S: Src>(s: &mut S) {
    let (cards, w7) = draw_cards::<S, 7>(s);
    assume!(s, all_distinct(&w7));
    let g = GhostV::install(cards, 7);
    let h = Seven::from(w7);
    let want = min_over_subsets(&g, 7);
    let (v, _) = h.hand_rank_value_and_hand();
    check!(s, v == want, "C02.seven_min.value_is_min_over_five_subsets");
    check!(s, want >= 1 && want <= 7462, "C02.seven_min.in_range");
}

/// the six/seven-card wrappers delegate to the one evaluation: with
/// hand_rank_value_and_hand replaced by "returns (v, hand)" for arbitrary v,
/// forall words: hand_rank_value == v, hand_rank == from(v),
/// validated == (is_valid ? v : 0), hand_rank_validated == from(that)
pub fn six_entry_points<S: Src>(s: &mut S) {
    use ckc_rs::cards::HandValidator;
    use ckc_rs::hand_rank::HandRank;
    let w = [s.u32(), s.u32(), s.u32(), s.u32(), s.u32(), s.u32()];
    let v = s.u16();
    crate::stubs::set_fixed(v, [w[0], w[1], w[2], w[3], w[4]]);
    let h = Six::from(w);
    reach!(s, valid_hand(&w), "C02.six_entry_points.reach_valid");
    reach!(s, !all_distinct(&w), "C02.six_entry_points.reach_invalid");
    #[cfg(not(kani))]
    let v = {
        let _ = v;
        if !valid_hand(&w) {
            check!(s, !h.is_valid(), "C02.six_entry_points.is_valid_exact");
            check!(s, h.hand_rank_value_validated() == 0, "C02.six_entry_points.validated");
            return;
        }
        h.hand_rank_value_and_hand().0
    };
    check!(s, h.hand_rank_value() == v, "C02.six_entry_points.hand_rank_value_delegates");
    check!(s, h.hand_rank() == HandRank::from(v), "C02.six_entry_points.hand_rank_is_from_value");
    let want = if h.is_valid() { v } else { 0 };
    check!(s, h.hand_rank_value_validated() == want, "C02.six_entry_points.validated");
}

pub fn seven_entry_points<S: Src>(s: &mut S) {
    use ckc_rs::cards::HandValidator;
    use ckc_rs::hand_rank::HandRank;
    let w = [s.u32(), s.u32(), s.u32(), s.u32(), s.u32(), s.u32(), s.u32()];
    let v = s.u16();
    crate::stubs::set_fixed(v, [w[0], w[1], w[2], w[3], w[4]]);
    let h = Seven::from(w);
    reach!(s, valid_hand(&w), "C02.seven_entry_points.reach_valid");
    reach!(s, !all_distinct(&w), "C02.seven_entry_points.reach_invalid");
    #[cfg(not(kani))]
    let v = {
        let _ = v;
        if !valid_hand(&w) {
            check!(s, !h.is_valid(), "C02.seven_entry_points.is_valid_exact");
            check!(s, h.hand_rank_value_validated() == 0, "C02.seven_entry_points.validated");
            return;
        }
        h.hand_rank_value_and_hand().0
    };
    check!(s, h.hand_rank_value() == v, "C02.seven_entry_points.hand_rank_value_delegates");
    check!(s, h.hand_rank() == HandRank::from(v), "C02.seven_entry_points.hand_rank_is_from_value");
    let want = if h.is_valid() { v } else { 0 };
    check!(s, h.hand_rank_value_validated() == want, "C02.seven_entry_points.validated");
}

// ------------------------------------------------------------------ native-only bodies (concretiser)

/// rule-based value of the best five-card subset, straight from the cards
fn best_by_rules(cards: &[(u8, u8)]) -> u16 {
    use super::c13::{same_suit, sort5_desc};
    use crate::spec::poker::ordinal;
    let n = cards.len();
    let mut best = u16::MAX;
    let mut m = 0u32;
    while m < (1u32 << n) {
        if m.count_ones() == 5 {
            let mut r = [0u8; 5];
            let mut su = [0u8; 5];
            let mut k = 0;
            let mut j = 0;
            while j < n {
                if m & (1 << j) != 0 {
                    r[k] = cards[j].0;
                    su[k] = cards[j].1;
                    k += 1;
                }
                j += 1;
            }
            let v = ordinal(&sort5_desc(&r), same_suit(&su));
            if v < best {
                best = v;
            }
        }
        m += 1;
    }
    best
}

/// native only: six distinct cards, value == rule-based evaluation of the six cards
pub fn six_rule_based<S: Src>(s: &mut S) {
    let mut c = [(0u8, 0u8); 6];
    let mut w = [0u32; 6];
    let mut i = 0;
    while i < 6 {
        let (r, su, x) = draw_card(s);
        c[i] = (r, su);
        w[i] = x;
        i += 1;
    }
    assume!(s, all_distinct(&w));
    let want = best_by_rules(&c);
    let h = Six::from(w);
    check!(s, h.hand_rank_value() == want, "C02.six_rule_based.value_is_best_hand_by_rules");
    check!(s, h.hand_rank().value == want, "C02.six_rule_based.hand_rank_value_field");
}

/// native only: seven distinct cards, value == rule-based evaluation of the seven cards
pub fn seven_rule_based<S: Src>(s: &mut S) {
    let mut c = [(0u8, 0u8); 7];
    let mut w = [0u32; 7];
    let mut i = 0;
    while i < 7 {
        let (r, su, x) = draw_card(s);
        c[i] = (r, su);
        w[i] = x;
        i += 1;
    }
    assume!(s, all_distinct(&w));
    let want = best_by_rules(&c);
    let h = Seven::from(w);
    check!(s, h.hand_rank_value() == want, "C02.seven_rule_based.value_is_best_hand_by_rules");
    check!(s, h.hand_rank().value == want, "C02.seven_rule_based.hand_rank_value_field");
}

/// hand_rank_validated() is the rank of hand_rank_value_validated(): with the latter
/// replaced by "returns v" for arbitrary v, forall words: hand_rank_validated() == from(v)
pub fn validated_rank<S: Src>(s: &mut S) {
    use ckc_rs::cards::five::Five;
    use ckc_rs::hand_rank::HandRank;
    let w = [s.u32(), s.u32(), s.u32(), s.u32(), s.u32(), s.u32(), s.u32()];
    let v = s.u16();
    crate::stubs::set_fixed(v, [w[0], w[1], w[2], w[3], w[4]]);
    let h5 = Five::from([w[0], w[1], w[2], w[3], w[4]]);
    let h6 = Six::from([w[0], w[1], w[2], w[3], w[4], w[5]]);
    let h7 = Seven::from(w);
    #[cfg(not(kani))]
    {
        // natively the real validated value is what the rank must be built from
        check!(s, valid_hand(&w[..5]) || h5.hand_rank_validated() == HandRank::from(0), "C02.validated_rank.five");
        check!(s, valid_hand(&w[..6]) || h6.hand_rank_validated() == HandRank::from(0), "C02.validated_rank.six");
        check!(s, valid_hand(&w) || h7.hand_rank_validated() == HandRank::from(0), "C02.validated_rank.seven");
        let _ = v;
        return;
    }
    #[cfg(kani)]
    {
        check!(s, h5.hand_rank_validated() == HandRank::from(v), "C02.validated_rank.five");
        check!(s, h6.hand_rank_validated() == HandRank::from(v), "C02.validated_rank.six");
        check!(s, h7.hand_rank_validated() == HandRank::from(v), "C02.validated_rank.seven");
    }
}
