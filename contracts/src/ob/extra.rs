//! Later additions: the mechanised composition lemma of C01, the unrolled peel history of
//! C15, and the bounded string-level stand-ins of C12 / C15.
use super::c13::sort5_desc;
use crate::spec::card::*;
use crate::src::Src;
use ckc_rs::cards::binary_card::BC64;
use ckc_rs::{CKCNumber, PokerCard};

/// C01 composition lemma (spec-level arithmetic): sorting the five ranks changes neither
/// the OR of the rank bits nor the product of the rank primes. With k1 (any order gives
/// OR / product of the ranks as drawn), k3 (value = function of mask, flush, product) and
/// rep_* (the sorted canonical hand of every class evaluates to its ordinal) this closes
/// "every slot order" without appeal to commutativity on paper.
pub fn sort_lemma<S: Src>(s: &mut S) {
    let r = [s.below(13), s.below(13), s.below(13), s.below(13), s.below(13)];
    let t = sort5_desc(&r);
    reach!(s, r[0] < r[4] && r[1] > r[2], "C01.sort_lemma.reach_unsorted");
    let p = |x: &[u8; 5]| -> u64 { PRIME[x[0] as usize] as u64 * PRIME[x[1] as usize] as u64 * PRIME[x[2] as usize] as u64 * PRIME[x[3] as usize] as u64 * PRIME[x[4] as usize] as u64 };
    let m = |x: &[u8; 5]| -> u32 { (1u32 << x[0]) | (1u32 << x[1]) | (1u32 << x[2]) | (1u32 << x[3]) | (1u32 << x[4]) };
    check!(s, t[0] >= t[1] && t[1] >= t[2] && t[2] >= t[3] && t[3] >= t[4], "C01.sort_lemma.sorted");
    check!(s, m(&r) == m(&t), "C01.sort_lemma.mask_invariant");
    check!(s, p(&r) == p(&t), "C01.sort_lemma.product_invariant");
    // the sorted tuple is a rearrangement: every rank occurs equally often
    let x = s.below(13);
    let cnt = |a: &[u8; 5]| -> u8 { (a[0] == x) as u8 + (a[1] == x) as u8 + (a[2] == x) as u8 + (a[3] == x) as u8 + (a[4] == x) as u8 };
    check!(s, cnt(&r) == cnt(&t), "C01.sort_lemma.same_multiset");
}

/// C15 history clause, unrolled: peeling a set of card bits to exhaustion lists exactly
/// its members in strictly descending deck order and then returns blank without changing
/// the (empty) set. forall b < 2^52.
pub fn peel_all<S: Src>(s: &mut S) {
    let b0 = s.u64();
    assume!(s, b0 >> 52 == 0);
    reach!(s, b0.count_ones() == 52, "C15.peel_all.reach_full_deck");
    reach!(s, b0 == 0, "C15.peel_all.reach_empty");
    let mut b = b0;
    let mut seen = 0u64;
    let mut last = u64::MAX;
    let mut i = 0;
    while i < 53 {
        let p = b.peel();
        if p == 0 {
            check!(s, b == 0 && seen == b0, "C15.peel_all.blank_only_when_every_member_listed");
        } else {
            check!(s, p < last, "C15.peel_all.strictly_descending_deck_order");
            check!(s, p & (p - 1) == 0 && b0 & p == p && seen & p == 0, "C15.peel_all.lists_a_new_member");
            seen |= p;
            last = p;
        }
        i += 1;
    }
    check!(s, b == 0 && seen == b0, "C15.peel_all.all_members_listed");
    check!(s, b.peel() == 0 && b == 0, "C15.peel_all.then_blank_forever");
}

// ------------------------------------------------------------------ bounded text stand-ins

/// BOUNDED (strings of at most 4 bytes): a card token of arbitrary bytes that form valid
/// UTF-8 parses, without panicking, to the card of its first two characters through the
/// symbol tables, else blank - whatever follows.
pub fn card_token_bytes<S: Src>(s: &mut S) {
    let buf = [s.u8(), s.u8(), s.u8(), s.u8()];
    let n = s.below(5) as usize;
    let text = match core::str::from_utf8(&buf[..n]) {
        Ok(t) => t,
        Err(_) => {
            assume!(s, false);
            return;
        }
    };
    reach!(s, n == 4 && buf[0] == b'A' && buf[1] == b'S', "C12.card_token_bytes.reach_card_with_tail");
    reach!(s, n == 4 && buf[0] >= 0xE0, "C12.card_token_bytes.reach_three_byte_char");
    let mut it = text.chars();
    let c0 = it.next();
    let c1 = it.next();
    check!(s, <CKCNumber as PokerCard>::from_index(text) == parse_two_chars(c0, c1), "C12.card_token_bytes.first_two_chars_decide");
}
