//! C07 – hand ranks form a lawful total order in which stronger hands are greater.
use crate::src::Src;
use ckc_rs::hand_rank::{HandRank, HandRankClass, HandRankName};
use core::cmp::Ordering;

fn valid(v: u16) -> bool {
    v >= 1 && v <= 7462
}

/// forall (v1, v2) in u16 x u16
pub fn pair_laws<S: Src>(s: &mut S) {
    let v1 = s.u16();
    let v2 = s.u16();
    reach!(s, !valid(v1) && !valid(v2) && v1 != v2, "C07.pair_laws.reach_two_different_invalid");
    reach!(s, valid(v1) && valid(v2) && v1 < v2, "C07.pair_laws.reach_two_valid");
    reach!(s, valid(v1) && !valid(v2), "C07.pair_laws.reach_mixed");
    let a = HandRank::from(v1);
    let b = HandRank::from(v2);
    let c = a.cmp(&b);
    // stronger (lower value) is greater; invalid below valid
    if valid(v1) && valid(v2) {
        check!(s, c == v2.cmp(&v1), "C07.pair_laws.valid_reverse_value_order");
    }
    if !valid(v1) && valid(v2) {
        check!(s, c == Ordering::Less, "C07.pair_laws.invalid_below_valid");
    }
    if valid(v1) && !valid(v2) {
        check!(s, c == Ordering::Greater, "C07.pair_laws.valid_above_invalid");
    }
    // consistent with equality
    check!(s, (c == Ordering::Equal) == (a == b), "C07.pair_laws.equal_iff_eq");
    check!(s, (a == b) == (v1 == v2), "C07.pair_laws.eq_iff_same_value");
    // antisymmetry / totality
    check!(s, b.cmp(&a) == c.reverse(), "C07.pair_laws.antisymmetric");
    // operators and partial_cmp agree
    check!(s, a.partial_cmp(&b) == Some(c), "C07.pair_laws.partial_cmp_agrees");
    check!(s, (a < b) == (c == Ordering::Less), "C07.pair_laws.lt");
    check!(s, (a <= b) == (c != Ordering::Greater), "C07.pair_laws.le");
    check!(s, (a > b) == (c == Ordering::Greater), "C07.pair_laws.gt");
    check!(s, (a >= b) == (c != Ordering::Less), "C07.pair_laws.ge");
}

/// transitivity, forall (v1, v2, v3) in u16^3
pub fn transitive<S: Src>(s: &mut S) {
    let v1 = s.u16();
    let v2 = s.u16();
    let v3 = s.u16();
    let a = HandRank::from(v1);
    let b = HandRank::from(v2);
    let c = HandRank::from(v3);
    reach!(s, !valid(v1) && !valid(v2) && !valid(v3) && v1 != v2 && v2 != v3, "C07.transitive.reach_three_invalid");
    if a.cmp(&b) != Ordering::Greater && b.cmp(&c) != Ordering::Greater {
        check!(s, a.cmp(&c) != Ordering::Greater, "C07.transitive.le_le_le");
    }
    if a.cmp(&b) == Ordering::Less && b.cmp(&c) != Ordering::Greater {
        check!(s, a.cmp(&c) == Ordering::Less, "C07.transitive.lt_le_lt");
    }
}

/// the category and class enumerations are ordered strongest-first in step with the value
pub fn enum_monotone<S: Src>(s: &mut S) {
    let v1 = s.u16();
    let v2 = s.u16();
    assume!(s, valid(v1) && valid(v2) && v1 < v2);
    let (n1, n2) = (HandRank::determine_name(&v1), HandRank::determine_name(&v2));
    let (c1, c2) = (HandRank::determine_class(&v1), HandRank::determine_class(&v2));
    reach!(s, n1 != n2, "C07.enum_monotone.reach_different_names");
    check!(s, n1 <= n2, "C07.enum_monotone.name_in_step");
    check!(s, c1 <= c2, "C07.enum_monotone.class_in_step");
    check!(s, n2 < HandRankName::Invalid && c2 < HandRankClass::Invalid, "C07.enum_monotone.invalid_is_last");
    // sorting by category or class never contradicts sorting by strength
    check!(s, !(n1 > n2) && !(c1 > c2), "C07.enum_monotone.no_contradiction");
    check!(s, (HandRank::from(v1) > HandRank::from(v2)), "C07.enum_monotone.rank_order");
}
