//! C13 – flush, straight and wheel predicates agree with the hand's actual category.
use super::common::*;
use crate::spec::card::*;
use crate::spec::poker::*;
use crate::src::Src;
use ckc_rs::cards::five::Five;
#[allow(deprecated)]
use ckc_rs::evaluate;

/// five symbolic distinct real cards in symbolic slot order
pub fn draw_hand5<S: Src>(s: &mut S) -> ([u8; 5], [u8; 5], [u32; 5]) {
    let mut r = [0u8; 5];
    let mut su = [0u8; 5];
    let mut w = [0u32; 5];
    let mut i = 0;
    while i < 5 {
        let (a, b, c) = draw_card(s);
        r[i] = a;
        su[i] = b;
        w[i] = c;
        i += 1;
    }
    (r, su, w)
}

/// ranks sorted non-increasing (sorting network, no loops)
pub fn sort5_desc(r: &[u8; 5]) -> [u8; 5] {
    let mut a = *r;
    macro_rules! cs {
        ($i:expr, $j:expr) => {
            if a[$i] < a[$j] {
                let t = a[$i];
                a[$i] = a[$j];
                a[$j] = t;
            }
        };
    }
    cs!(0, 1);
    cs!(3, 4);
    cs!(2, 4);
    cs!(2, 3);
    cs!(1, 4);
    cs!(0, 3);
    cs!(0, 2);
    cs!(1, 3);
    cs!(1, 2);
    a
}

pub fn same_suit(su: &[u8; 5]) -> bool {
    su[0] == su[1] && su[1] == su[2] && su[2] == su[3] && su[3] == su[4]
}

/// forall hands of five distinct real cards, any slot order
#[allow(deprecated)]
pub fn predicates<S: Src>(s: &mut S) {
    let (r, su, w) = draw_hand5(s);
    assume!(s, all_distinct(&w));
    let t = sort5_desc(&r);
    let flush = same_suit(&su);
    let straight = straight_top(&t).is_some();
    let wheel = t == [12, 3, 2, 1, 0];
    reach!(s, flush && straight, "C13.predicates.reach_straight_flush");
    reach!(s, wheel && !flush, "C13.predicates.reach_wheel");
    reach!(s, !distinct5(&t) && t[0] - t[4] == 4, "C13.predicates.reach_paired_hand_spanning_five_ranks");
    let h = Five::from(w);
    check!(s, h.is_flush() == flush, "C13.predicates.is_flush_exact");
    check!(s, h.is_straight() == straight, "C13.predicates.is_straight_exact");
    check!(s, h.is_straight_flush() == (straight && flush), "C13.predicates.is_straight_flush_exact");
    check!(s, h.is_wheel() == wheel, "C13.predicates.is_wheel_exact");
    let or_ranks = (1u32 << r[0]) | (1u32 << r[1]) | (1u32 << r[2]) | (1u32 << r[3]) | (1u32 << r[4]);
    check!(s, h.or_rank_bits() == or_ranks, "C13.predicates.or_rank_bits");
    check!(s, h.and_bits() == w[0] & w[1] & w[2] & w[3] & w[4], "C13.predicates.and_bits");
    check!(s, h.or_bits() == w[0] | w[1] | w[2] | w[3] | w[4], "C13.predicates.or_bits");
    // the deprecated free functions agree with the methods
    check!(s, evaluate::is_flush(w) == h.is_flush(), "C13.predicates.free_is_flush_agrees");
    check!(s, evaluate::or_rank_bits(w) == h.or_rank_bits() as usize, "C13.predicates.free_or_rank_bits_agrees");
    // agreement with the category of the hand (the category by the rules of poker)
    let cat = category(&t, flush);
    check!(s, h.is_straight_flush() == (cat == CAT_STRAIGHT_FLUSH), "C13.predicates.category_straight_flush");
    check!(s, h.is_flush() == (cat == CAT_STRAIGHT_FLUSH || cat == CAT_FLUSH), "C13.predicates.category_flush");
    check!(s, h.is_straight() == (cat == CAT_STRAIGHT_FLUSH || cat == CAT_STRAIGHT), "C13.predicates.category_straight");
    check!(s, !h.is_wheel() || (cat == CAT_STRAIGHT_FLUSH || cat == CAT_STRAIGHT), "C13.predicates.wheel_is_a_straight");
}

/// native only (concretiser body): predicates agree with the category obtained by ranking
pub fn name_native<S: Src>(s: &mut S) {
    use ckc_rs::cards::HandRanker;
    use ckc_rs::hand_rank::HandRankName;
    let (_, _, w) = draw_hand5(s);
    assume!(s, all_distinct(&w));
    let h = Five::from(w);
    let name = h.hand_rank().name;
    check!(s, h.is_straight_flush() == (name == HandRankName::StraightFlush), "C13.name.straight_flush_agrees_with_rank");
    check!(s, h.is_flush() == (name == HandRankName::StraightFlush || name == HandRankName::Flush), "C13.name.flush_agrees_with_rank");
    check!(s, h.is_straight() == (name == HandRankName::StraightFlush || name == HandRankName::Straight), "C13.name.straight_agrees_with_rank");
}
