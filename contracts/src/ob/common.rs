//! helpers shared by the obligation bodies
use crate::spec::card::*;
use crate::src::Src;
use ckc_rs::{CardRank, CardSuit};

/// a symbolic real card: (rank, suit, word by the documented layout)
#[inline]
pub fn draw_card<S: Src>(s: &mut S) -> (u8, u8, u32) {
    let r = s.below(13);
    let su = s.below(4);
    (r, su, layout(r, su))
}

/// a symbolic slot over {52 cards, blank}: rank 13 stands for blank
#[inline]
pub fn draw_card_or_blank<S: Src>(s: &mut S) -> u32 {
    let r = s.below(14);
    let su = s.below(4);
    if r == 13 {
        0
    } else {
        layout(r, su)
    }
}

/// rank enumeration member for spec rank r (13 = BLANK)
pub fn rank_enum(r: u8) -> CardRank {
    match r {
        12 => CardRank::ACE,
        11 => CardRank::KING,
        10 => CardRank::QUEEN,
        9 => CardRank::JACK,
        8 => CardRank::TEN,
        7 => CardRank::NINE,
        6 => CardRank::EIGHT,
        5 => CardRank::SEVEN,
        4 => CardRank::SIX,
        3 => CardRank::FIVE,
        2 => CardRank::FOUR,
        1 => CardRank::THREE,
        0 => CardRank::TWO,
        _ => CardRank::BLANK,
    }
}

/// suit enumeration member for spec suit s (4 = BLANK)
pub fn suit_enum(s: u8) -> CardSuit {
    match s {
        3 => CardSuit::SPADES,
        2 => CardSuit::HEARTS,
        1 => CardSuit::DIAMONDS,
        0 => CardSuit::CLUBS,
        _ => CardSuit::BLANK,
    }
}
