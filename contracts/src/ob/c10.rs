//! C10 – card words follow the documented bit layout; exactly 52 words are cards.
use super::common::*;
use crate::spec::card::*;
use crate::spec::names::NAMED_CKC;
use crate::src::Src;
use ckc_rs::deck::POKER_DECK;
use ckc_rs::{CKCNumber, CardNumber, CardRank, CardSuit, PokerCard};

/// contract of `CardNumber::filter` / `PokerCard::filter`:
/// requires true; ensures result == (is_card(w) ? w : 0), for all 2^32 words.
pub fn filter_exact<S: Src>(s: &mut S) {
    let w = s.u32();
    reach!(s, is_card(w), "C10.filter_exact.reach_card");
    reach!(s, !is_card(w) && w != 0, "C10.filter_exact.reach_noncard");
    let want = if is_card(w) { w } else { 0 };
    check!(s, CardNumber::filter(w) == want, "C10.filter_exact.card_number_filter");
    check!(s, <CKCNumber as PokerCard>::filter(w) == want, "C10.filter_exact.poker_card_filter");
    check!(s, (w == 0) == w.is_blank(), "C10.filter_exact.is_blank");
}

/// the 52 named constants and the deck are the layout words
pub fn constants<S: Src>(s: &mut S) {
    let (r, su, w) = draw_card(s);
    reach!(s, r == 12 && su == 3, "C10.constants.reach_ace_spades");
    reach!(s, r == 0 && su == 0, "C10.constants.reach_deuce_clubs");
    check!(s, NAMED_CKC[r as usize][su as usize] == w, "C10.constants.named");
    check!(s, POKER_DECK.arr()[deck_pos(r, su) as usize] == w, "C10.constants.deck");
    check!(s, CardNumber::BLANK == 0, "C10.constants.blank");
    // exactly 52: the layout is injective on (rank, suit)
    let (r2, su2, w2) = draw_card(s);
    check!(s, (w == w2) == (r == r2 && su == su2), "C10.constants.injective");
}

/// construction from every one of the 14 x 5 enumeration pairs
pub fn create<S: Src>(s: &mut S) {
    let r = s.below(14);
    let su = s.below(5);
    reach!(s, r == 13, "C10.create.reach_blank_rank");
    reach!(s, su == 4, "C10.create.reach_blank_suit");
    reach!(s, r < 13 && su < 4, "C10.create.reach_card");
    let got = <CKCNumber as PokerCard>::create(rank_enum(r), suit_enum(su));
    let want = if r < 13 && su < 4 { layout(r, su) } else { 0 };
    check!(s, got == want, "C10.create.layout_or_blank");
    // suit signature: one suit bit in bits 12-15, clubs lowest
    let sig = suit_enum(su).binary_signature();
    check!(s, sig == if su < 4 { 1u32 << (12 + su as u32) } else { 0 }, "C10.create.binary_signature");
}

/// every accessor reads the documented field back, for all 52 cards (and blank)
pub fn accessors<S: Src>(s: &mut S) {
    let (r, su, w) = draw_card(s);
    check!(s, w.get_card_rank() == rank_enum(r), "C10.accessors.get_card_rank");
    check!(s, w.get_card_suit() == suit_enum(su), "C10.accessors.get_card_suit");
    check!(s, w.get_rank_bit() == 1u32 << r, "C10.accessors.get_rank_bit");
    check!(s, w.get_rank_flag() == 1u32 << (16 + r as u32), "C10.accessors.get_rank_flag");
    check!(s, w.get_rank_prime() == PRIME[r as usize], "C10.accessors.get_rank_prime");
    check!(s, w.get_suit_bit() == 1u32 << su, "C10.accessors.get_suit_bit");
    check!(s, w.get_suit_flag() == 1u32 << (12 + su as u32), "C10.accessors.get_suit_flag");
    check!(s, w.get_rank_char() == RANK_CHAR[r as usize], "C10.accessors.get_rank_char");
    check!(s, w.get_suit_char() == SUIT_GLYPH[su as usize], "C10.accessors.get_suit_char");
    check!(s, w.get_suit_letter() == SUIT_LETTER[su as usize], "C10.accessors.get_suit_letter");
    check!(s, !w.is_blank(), "C10.accessors.is_blank");
    check!(s, w.as_u32() == w, "C10.accessors.as_u32");
    check!(s, (w >> 8) & 0xF == r as u32, "C10.accessors.rank_number_field");
    // blank reads as blank
    let b: CKCNumber = 0;
    check!(s, b.get_card_rank() == CardRank::BLANK && b.get_card_suit() == CardSuit::BLANK, "C10.accessors.blank_fields");
    check!(s, b.is_blank(), "C10.accessors.blank_is_blank");
}
