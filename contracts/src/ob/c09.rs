//! C09 – more cards never weaken a hand: seven <= every six-subset <= every five-subset.
//! The value halves (six/seven value == min over five-subsets of V) are C02.six_min and
//! C02.seven_min; this file holds the composition lemma and the direct form.
use super::c02::{draw_cards, min_over_subsets};
use crate::spec::card::*;
use crate::src::Src;
use crate::stubs::GhostV;
use ckc_rs::cards::five::Five;
use ckc_rs::cards::seven::Seven;
use ckc_rs::cards::six::Six;
use ckc_rs::cards::HandRanker;

/// min of V over the weight-5 masks inside `within`
fn min_within(g: &GhostV, within: u8) -> u16 {
    let mut best = u16::MAX;
    let mut m = 0u8;
    while m < 128 {
        if m.count_ones() == 5 && m & !within == 0 {
            let v = g.v(m);
            if v < best {
                best = v;
            }
        }
        m += 1;
    }
    best
}

/// composition lemma over an arbitrary value function V on the 21 five-subsets of seven
/// slots: min over all 21 == min over the seven six-subsets of (min over the six
/// five-subsets inside it); each inner min <= each of its members. With the two value
/// contracts this is "seven = min of its sixes <= every six = min of its fives <= every five".
pub fn min_lemma<S: Src>(s: &mut S) {
    let (cards, w7) = draw_cards::<S, 7>(s);
    assume!(s, all_distinct(&w7));
    let g = GhostV::install(cards, 7);
    let seven = min_over_subsets(&g, 7);
    let drop = s.below(7);
    let six_mask = 0x7Fu8 & !(1u8 << drop);
    let six = min_within(&g, six_mask);
    check!(s, seven <= six, "C09.min_lemma.seven_le_every_six");
    // and the seven value is attained by one of the sixes
    let mut best = u16::MAX;
    let mut k = 0u8;
    while k < 7 {
        let v = min_within(&g, 0x7F & !(1u8 << k));
        if v < best {
            best = v;
        }
        k += 1;
    }
    check!(s, seven == best, "C09.min_lemma.seven_is_min_of_sixes");
    // every five inside the six is no stronger than the six
    let drop2 = s.below(7);
    assume!(s, drop2 != drop);
    let five_mask = six_mask & !(1u8 << drop2);
    check!(s, six <= g.v(five_mask), "C09.min_lemma.six_le_every_five_inside");
}

/// direct form on the real code: build the seven Sixes of a Seven and the six Fives of
/// each and compare the real return values (five-card evaluation = ghost V)
pub fn direct<S: Src>(s: &mut S) {
    let (cards, w7) = draw_cards::<S, 7>(s);
    assume!(s, all_distinct(&w7));
    let g = GhostV::install(cards, 7);
    let v7 = Seven::from(w7).hand_rank_value();
    let drop = s.below(7) as usize;
    let mut w6 = [0u32; 6];
    let mut k = 0;
    let mut i = 0;
    while i < 7 {
        if i != drop {
            w6[k] = w7[i];
            k += 1;
        }
        i += 1;
    }
    let v6 = Six::from(w6).hand_rank_value();
    check!(s, v7 <= v6, "C09.direct.seven_le_six");
    let drop2 = s.below(6) as usize;
    let mut w5 = [0u32; 5];
    let mut k = 0;
    let mut i = 0;
    while i < 6 {
        if i != drop2 {
            w5[k] = w6[i];
            k += 1;
        }
        i += 1;
    }
    let v5 = Five::from(w5).hand_rank_value();
    check!(s, v6 <= v5, "C09.direct.six_le_five");
    check!(s, v7 >= 1 && v5 <= 7462, "C09.direct.in_range");
    let _ = g;
}
