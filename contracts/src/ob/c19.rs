//! C19 – hand containers store and return exactly the words put into them.
use crate::src::Src;
use ckc_rs::cards::five::Five;
use ckc_rs::cards::four::Four;
use ckc_rs::cards::seven::Seven;
use ckc_rs::cards::six::Six;
use ckc_rs::cards::three::Three;
use ckc_rs::cards::two::Two;
use ckc_rs::cards::{HandValidator, Permutator};

fn draw_arr<S: Src, const N: usize>(s: &mut S) -> [u32; N] {
    let mut a = [0u32; N];
    let mut i = 0;
    while i < N {
        a[i] = s.u32();
        i += 1;
    }
    a
}

fn iter_matches<'a, I: Iterator<Item = &'a u32>>(it: I, a: &[u32]) -> bool {
    let mut n = 0;
    for x in it {
        if n >= a.len() || *x != a[n] {
            return false;
        }
        n += 1;
    }
    n == a.len()
}

/// contract of every setter: to_arr() == old(to_arr()) with [k] := x  (frame: nothing else changes)
macro_rules! setter_frame {
    ($s:ident, $h:ident, $a:ident, $x:ident, $k:ident, $idx:expr, $set:ident, $name:literal) => {
        if $k == $idx {
            let mut h2 = $h;
            h2.$set($x);
            let mut want = $a;
            want[$idx] = $x;
            check!($s, h2.to_arr() == want, $name);
        }
    };
}

pub fn two<S: Src>(s: &mut S) {
    let a: [u32; 2] = draw_arr(s);
    let x = s.u32();
    let k = s.below(2);
    reach!(s, a[0] != a[1] && x != a[0] && x != a[1], "C19.two.reach_distinct");
    let h = Two::from(a);
    check!(s, h.to_arr() == a, "C19.two.from_to_arr");
    check!(s, Two::from(&a).to_arr() == a, "C19.two.from_ref");
    check!(s, Two::new(a[0], a[1]).to_arr() == a, "C19.two.new");
    check!(s, h.first() == a[0] && h.second() == a[1], "C19.two.accessors");
    check!(s, iter_matches(h.iter(), &a), "C19.two.iter");
    setter_frame!(s, h, a, x, k, 0, set_first, "C19.two.set_first");
    setter_frame!(s, h, a, x, k, 1, set_second, "C19.two.set_second");
}

pub fn three<S: Src>(s: &mut S) {
    let a: [u32; 3] = draw_arr(s);
    let x = s.u32();
    let k = s.below(3);
    reach!(s, a[0] != a[1] && a[1] != a[2] && x != a[0], "C19.three.reach_distinct");
    let h = Three::from(a);
    check!(s, h.to_arr() == a, "C19.three.from_to_arr");
    check!(s, Three(a).to_arr() == a && Three(a).0 == a, "C19.three.tuple_constructor");
    check!(s, h.first() == a[0] && h.second() == a[1] && h.third() == a[2], "C19.three.accessors");
    check!(s, iter_matches(h.iter(), &a), "C19.three.iter");
    setter_frame!(s, h, a, x, k, 0, set_first, "C19.three.set_first");
    setter_frame!(s, h, a, x, k, 1, set_second, "C19.three.set_second");
    setter_frame!(s, h, a, x, k, 2, set_third, "C19.three.set_third");
}

pub fn four<S: Src>(s: &mut S) {
    let a: [u32; 4] = draw_arr(s);
    let x = s.u32();
    let k = s.below(4);
    reach!(s, a[0] != a[1] && a[2] != a[3] && x != a[0], "C19.four.reach_distinct");
    let h = Four::from(a);
    check!(s, h.to_arr() == a, "C19.four.from_to_arr");
    check!(s, h.first() == a[0] && h.second() == a[1] && h.third() == a[2] && h.forth() == a[3], "C19.four.accessors");
    check!(s, iter_matches(h.iter(), &a), "C19.four.iter");
    setter_frame!(s, h, a, x, k, 0, set_first, "C19.four.set_first");
    setter_frame!(s, h, a, x, k, 1, set_second, "C19.four.set_second");
    setter_frame!(s, h, a, x, k, 2, set_third, "C19.four.set_third");
    setter_frame!(s, h, a, x, k, 3, set_forth, "C19.four.set_forth");
}

pub fn five<S: Src>(s: &mut S) {
    let a: [u32; 5] = draw_arr(s);
    let x = s.u32();
    let k = s.below(5);
    reach!(s, a[0] != a[1] && a[3] != a[4] && x != a[0], "C19.five.reach_distinct");
    let h = Five::from(a);
    check!(s, h.to_arr() == a, "C19.five.from_to_arr");
    check!(s, Five::new(a[0], a[1], a[2], a[3], a[4]).to_arr() == a, "C19.five.new");
    check!(s, h.first() == a[0] && h.second() == a[1] && h.third() == a[2] && h.forth() == a[3] && h.fifth() == a[4], "C19.five.accessors");
    check!(s, iter_matches(h.iter(), &a), "C19.five.iter");
    setter_frame!(s, h, a, x, k, 0, set_first, "C19.five.set_first");
    setter_frame!(s, h, a, x, k, 1, set_second, "C19.five.set_second");
    setter_frame!(s, h, a, x, k, 2, set_third, "C19.five.set_third");
    setter_frame!(s, h, a, x, k, 3, set_forth, "C19.five.set_forth");
    setter_frame!(s, h, a, x, k, 4, set_fifth, "C19.five.set_fifth");
}

pub fn six<S: Src>(s: &mut S) {
    let a: [u32; 6] = draw_arr(s);
    let x = s.u32();
    let k = s.below(6);
    reach!(s, a[0] != a[1] && a[4] != a[5] && x != a[0], "C19.six.reach_distinct");
    let h = Six::from(a);
    check!(s, h.to_arr() == a, "C19.six.from_to_arr");
    check!(s, Six::from_1_and_2_and_3(a[0], Two::from([a[1], a[2]]), Three::from([a[3], a[4], a[5]])).to_arr() == a, "C19.six.from_1_and_2_and_3");
    check!(s, h.first() == a[0] && h.second() == a[1] && h.third() == a[2] && h.forth() == a[3] && h.fifth() == a[4] && h.sixth() == a[5], "C19.six.accessors");
    check!(s, iter_matches(h.iter(), &a), "C19.six.iter");
    setter_frame!(s, h, a, x, k, 0, set_first, "C19.six.set_first");
    setter_frame!(s, h, a, x, k, 1, set_second, "C19.six.set_second");
    setter_frame!(s, h, a, x, k, 2, set_third, "C19.six.set_third");
    setter_frame!(s, h, a, x, k, 3, set_forth, "C19.six.set_forth");
    setter_frame!(s, h, a, x, k, 4, set_fifth, "C19.six.set_fifth");
    setter_frame!(s, h, a, x, k, 5, set_sixth, "C19.six.set_sixth");
    // slot-index selection, every in-range index tuple (6^5)
    let p = [s.below(6), s.below(6), s.below(6), s.below(6), s.below(6)];
    let f = h.five_from_permutation(p);
    check!(s, f.to_arr() == [a[p[0] as usize], a[p[1] as usize], a[p[2] as usize], a[p[3] as usize], a[p[4] as usize]], "C19.six.five_from_permutation");
}

pub fn seven<S: Src>(s: &mut S) {
    let a: [u32; 7] = draw_arr(s);
    let x = s.u32();
    let k = s.below(7);
    reach!(s, a[0] != a[1] && a[5] != a[6] && x != a[0], "C19.seven.reach_distinct");
    let h = Seven::from(a);
    check!(s, h.to_arr() == a, "C19.seven.from_to_arr");
    check!(s, Seven::new(Two::from([a[0], a[1]]), Five::from([a[2], a[3], a[4], a[5], a[6]])).to_arr() == a, "C19.seven.new");
    check!(s, h.first() == a[0] && h.second() == a[1] && h.third() == a[2] && h.forth() == a[3] && h.fifth() == a[4] && h.sixth() == a[5] && h.seventh() == a[6], "C19.seven.accessors");
    check!(s, iter_matches(h.iter(), &a), "C19.seven.iter");
    setter_frame!(s, h, a, x, k, 0, set_first, "C19.seven.set_first");
    setter_frame!(s, h, a, x, k, 1, set_second, "C19.seven.set_second");
    setter_frame!(s, h, a, x, k, 2, set_third, "C19.seven.set_third");
    setter_frame!(s, h, a, x, k, 3, set_forth, "C19.seven.set_forth");
    setter_frame!(s, h, a, x, k, 4, set_fifth, "C19.seven.set_fifth");
    setter_frame!(s, h, a, x, k, 5, set_sixth, "C19.seven.set_sixth");
    setter_frame!(s, h, a, x, k, 6, set_seventh, "C19.seven.set_seventh");
    let p = [s.below(7), s.below(7), s.below(7), s.below(7), s.below(7)];
    let f = h.five_from_permutation(p);
    check!(s, f.to_arr() == [a[p[0] as usize], a[p[1] as usize], a[p[2] as usize], a[p[3] as usize], a[p[4] as usize]], "C19.seven.five_from_permutation");
}

/// two consecutive setter calls on symbolic slots: the composition of two frame
/// contracts (the induction step "any sequence of setters equals the same writes on
/// an array", checked directly for sequences of length two on Seven, the largest size)
pub fn seven_two_writes<S: Src>(s: &mut S) {
    let a: [u32; 7] = draw_arr(s);
    let (x1, x2) = (s.u32(), s.u32());
    let (k1, k2) = (s.below(7), s.below(7));
    reach!(s, k1 == k2 && x1 != x2, "C19.seven_two_writes.reach_same_slot_twice");
    let mut h = Seven::from(a);
    let mut model = a;
    set_slot(&mut h, k1, x1);
    model[k1 as usize] = x1;
    set_slot(&mut h, k2, x2);
    model[k2 as usize] = x2;
    check!(s, h.to_arr() == model, "C19.seven_two_writes.equals_array_model");
}

fn set_slot(h: &mut Seven, k: u8, x: u32) {
    match k {
        0 => h.set_first(x),
        1 => h.set_second(x),
        2 => h.set_third(x),
        3 => h.set_forth(x),
        4 => h.set_fifth(x),
        5 => h.set_sixth(x),
        _ => h.set_seventh(x),
    }
}
