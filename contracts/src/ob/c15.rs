//! C15 – card bit-sets behave as sets: union, subset, count, validity, ordered peel.
use super::common::*;
use crate::spec::card::*;
use crate::src::Src;
use ckc_rs::cards::binary_card::{BinaryCard, BC64};
use ckc_rs::cards::five::Five;
use ckc_rs::cards::four::Four;
use ckc_rs::cards::seven::Seven;
use ckc_rs::cards::six::Six;
use ckc_rs::cards::three::Three;
use ckc_rs::cards::two::Two;

const ALL52: u64 = (1u64 << 52) - 1;

fn spec_bit(w: u32) -> u64 {
    match decode(w) {
        Some((r, su)) => bit_of(r, su),
        None => 0,
    }
}

/// population count written as a loop (independent of count_ones)
fn popcount(b: u64) -> u32 {
    let mut n = 0;
    let mut i = 0;
    while i < 64 {
        if (b >> i) & 1 == 1 {
            n += 1;
        }
        i += 1;
    }
    n
}

/// number of distinct real cards among the slots
fn distinct_cards(a: &[u32]) -> u32 {
    let mut n = 0;
    let mut i = 0;
    while i < a.len() {
        if is_card(a[i]) {
            let mut seen = false;
            let mut j = 0;
            while j < i {
                if a[j] == a[i] {
                    seen = true;
                }
                j += 1;
            }
            if !seen {
                n += 1;
            }
        }
        i += 1;
    }
    n
}

macro_rules! from_ob {
    ($f:ident, $T:ty, $n:expr, $conv:ident) => {
        /// forall words: the set built from a hand contains exactly the distinct real
        /// cards among its slots
        pub fn $f<S: Src>(s: &mut S) {
            let mut a = [0u32; $n];
            let mut i = 0;
            while i < $n {
                a[i] = s.u32();
                i += 1;
            }
            reach!(s, is_card(a[0]) && a[0] == a[1], "C15.from.reach_repeated_card");
            reach!(s, is_card(a[0]) && !is_card(a[1]) && a[1] != 0, "C15.from.reach_noncard_slot");
            let b = <BinaryCard as BC64>::$conv(<$T>::from(a));
            let mut want = 0u64;
            let mut i = 0;
            while i < $n {
                want |= spec_bit(a[i]);
                i += 1;
            }
            check!(s, b == want, "C15.from.union_of_slot_bits");
            // membership, for an arbitrary card
            let (r, su, w) = draw_card(s);
            let mut present = false;
            let mut i = 0;
            while i < $n {
                if a[i] == w {
                    present = true;
                }
                i += 1;
            }
            check!(s, b.has(bit_of(r, su)) == present, "C15.from.member_iff_in_a_slot");
            check!(s, b & !ALL52 == 0, "C15.from.no_overflow_bits");
        }
    };
}

macro_rules! count_ob {
    ($f:ident, $T:ty, $n:expr, $conv:ident) => {
        /// forall words: the count of the set built from a hand is the number of
        /// distinct real cards among its slots
        pub fn $f<S: Src>(s: &mut S) {
            let mut a = [0u32; $n];
            let mut i = 0;
            while i < $n {
                a[i] = s.u32();
                i += 1;
            }
            reach!(s, is_card(a[0]) && a[0] == a[1], "C15.count.reach_repeated_card");
            let b = <BinaryCard as BC64>::$conv(<$T>::from(a));
            check!(s, b.number_of_cards() == distinct_cards(&a), "C15.count.distinct_cards");
        }
    };
}

count_ob!(count_2, Two, 2, from_two);
count_ob!(count_3, Three, 3, from_three);
count_ob!(count_4, Four, 4, from_four);
count_ob!(count_5, Five, 5, from_five);
count_ob!(count_6, Six, 6, from_six);
count_ob!(count_7, Seven, 7, from_seven);

from_ob!(from_2, Two, 2, from_two);
from_ob!(from_3, Three, 3, from_three);
from_ob!(from_4, Four, 4, from_four);
from_ob!(from_5, Five, 5, from_five);
from_ob!(from_6, Six, 6, from_six);
from_ob!(from_7, Seven, 7, from_seven);

/// forall b, c: u64. union, subset test, count, single-card test, validity
pub fn set_ops<S: Src>(s: &mut S) {
    let b = s.u64();
    let c = s.u64();
    reach!(s, b & c == c && c != 0 && b != c, "C15.set_ops.reach_proper_subset");
    reach!(s, b != 0 && b & !ALL52 != 0, "C15.set_ops.reach_overflow");
    check!(s, b.fold_in(c) == b | c, "C15.set_ops.fold_in_is_union");
    check!(s, b.has(c) == (c & !b == 0), "C15.set_ops.has_is_subset");
    check!(s, b.number_of_cards() == popcount(b), "C15.set_ops.count");
    check!(s, b.is_single_card() == (popcount(b) == 1), "C15.set_ops.single");
    check!(s, <u64 as BC64>::is_valid(&b) == (b != 0 && b >> 52 == 0), "C15.set_ops.valid");
    check!(s, b.as_u64() == b, "C15.set_ops.as_u64");
    // the published masks: the 52 card bits, and everything above them
    check!(s, <BinaryCard as BC64>::ALL == ALL52 && <BinaryCard as BC64>::OVERFLOW == !ALL52, "C15.set_ops.masks");
}

/// one-step contract of peel, forall b: u64
///   no card bit: returns blank and leaves the set unchanged
///   otherwise: returns the highest card bit (first in deck order) and clears exactly it
pub fn peel<S: Src>(s: &mut S) {
    let b0 = s.u64();
    reach!(s, b0 & ALL52 == 0 && b0 != 0, "C15.peel.reach_only_overflow_bits");
    reach!(s, popcount(b0 & ALL52) > 3, "C15.peel.reach_many");
    let mut b = b0;
    let got = b.peel();
    if b0 & ALL52 == 0 {
        check!(s, got == 0, "C15.peel.empty_returns_blank");
        check!(s, b == b0, "C15.peel.empty_unchanged");
    } else {
        let top = 63 - (b0 & ALL52).leading_zeros();
        check!(s, got == 1u64 << top, "C15.peel.returns_highest_card");
        check!(s, b == b0 & !(1u64 << top), "C15.peel.clears_exactly_it");
    }
}

/// two consecutive peels list members in deck order (the induction step of the
/// history clause, checked directly): second < first, both members, or blank forever
pub fn peel_twice<S: Src>(s: &mut S) {
    let b0 = s.u64();
    assume!(s, b0 >> 52 == 0);
    let mut b = b0;
    let p1 = b.peel();
    let p2 = b.peel();
    reach!(s, p1 != 0 && p2 != 0, "C15.peel_twice.reach_two_members");
    reach!(s, p1 != 0 && p2 == 0, "C15.peel_twice.reach_last_member");
    if p2 != 0 {
        check!(s, p1 > p2, "C15.peel_twice.deck_order");
        check!(s, b0 & p1 == p1 && b0 & p2 == p2, "C15.peel_twice.members");
        // nothing between them was a member
        check!(s, b0 & (p1 - 1) & !(p2 | (p2 - 1)) == 0, "C15.peel_twice.no_member_skipped");
    }
    if p1 == 0 {
        check!(s, p2 == 0 && b == b0, "C15.peel_twice.blank_forever");
    }
    check!(s, b == b0 & !p1 & !p2, "C15.peel_twice.remaining");
}
