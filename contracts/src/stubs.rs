//! contract stubs (filled in later)
