//! Contract stubs: a callee's contract made executable, used through #[kani::stub] so
//! that a caller is checked against the callee's CONTRACT, not its body. Every stub
//! names the obligation that proves its contract against the real body; the driver only
//! counts an obligation that uses a stub when that proving obligation is part of the
//! same property's obligation set and discharged on the same tree.
//!
//! Natively (replay) no stub is active: the real callee runs.
#![allow(static_mut_refs)]

use ckc_rs::cards::five::Five;
#[cfg(kani)]
use ckc_rs::cards::seven::Seven;
#[cfg(kani)]
use ckc_rs::cards::six::Six;

// ------------------------------------------------------------------ find_in_products
// contract (proved by Verus obligation C05.find_total on the extracted real text):
//   total for every key; result < 4888; a pure function of the key.
#[cfg(kani)]
pub static mut FIND_SET: bool = false;
#[cfg(kani)]
pub static mut FIND_KEY: usize = 0;
#[cfg(kani)]
pub static mut FIND_IDX: usize = 0;

#[cfg(kani)]
pub fn find_in_products_contract(key: usize) -> usize {
    unsafe {
        if FIND_SET && FIND_KEY == key {
            return FIND_IDX;
        }
        let r: usize = kani::any();
        kani::assume(r < 4888);
        if !FIND_SET {
            FIND_SET = true;
            FIND_KEY = key;
            FIND_IDX = r;
        }
        r
    }
}

/// the index the (stubbed or real) search returns for `key`
pub fn search_index(key: usize) -> usize {
    #[cfg(kani)]
    {
        find_in_products_contract(key)
    }
    #[cfg(not(kani))]
    {
        Five::find_in_products(key)
    }
}

// ------------------------------------------------------------------ ghost function V
// contract of <Five as HandRanker>::hand_rank_value_and_hand on five DISTINCT REAL
// cards drawn from a known set of at most seven cards:
//   value in 1..=7462, depending only on the SET of cards   (C01: C01.rep_* + C01.k1 + C01.k3)
//   the hand is returned unchanged                            (C03.five_identity)
// V is the symbolic table of those values indexed by membership mask.
#[cfg(kani)]
pub static mut G_CARDS: [[u32; 7]; 2] = [[0; 7]; 2];
#[cfg(kani)]
pub static mut G_N: usize = 0;
#[cfg(kani)]
pub static mut G_PHASE: usize = 0;
#[cfg(kani)]
pub static mut G_VALS: [u16; 128] = [0; 128];
#[cfg(kani)]
pub static mut G_PRE_OK: bool = true;

#[cfg(kani)]
pub fn mask_of(a: &[u32; 5]) -> u8 {
    let mut mask = 0u8;
    let mut i = 0;
    while i < 5 {
        let mut j = 0;
        let mut found = false;
        while j < 7 {
            unsafe {
                if j < G_N && G_CARDS[G_PHASE][j] == a[i] {
                    mask |= 1 << j;
                    found = true;
                }
            }
            j += 1;
        }
        if !found {
            unsafe {
                G_PRE_OK = false;
            }
        }
        i += 1;
    }
    mask
}

#[cfg(kani)]
pub fn five_vh_ghost_v(f: &Five) -> (u16, Five) {
    let a = f.to_arr();
    let mask = mask_of(&a);
    unsafe {
        if mask.count_ones() != 5 {
            G_PRE_OK = false;
        }
        // the caller must respect the precondition: five distinct cards of the input
        assert!(G_PRE_OK, "H.ghost_v.precondition_five_distinct_input_cards");
        (G_VALS[mask as usize], *f)
    }
}

/// The ghost function handed to obligation bodies: under Kani a symbolic table, natively
/// the real five-card evaluation of the sub-hand.
pub struct GhostV {
    pub cards: [u32; 7],
    pub n: usize,
}

impl GhostV {
    /// installs the cards (phase 0) and, under Kani, draws V for every weight-5 mask
    pub fn install(cards: [u32; 7], n: usize) -> GhostV {
        Self::install_with(cards, n, true)
    }

    /// V without the range clause: any u16, 0 included (the six/seven code skips zero
    /// values). The contract is then only "a function of the card set" (k1 + k3 + sort_lemma).
    pub fn install_any(cards: [u32; 7], n: usize) -> GhostV {
        Self::install_with(cards, n, false)
    }

    #[allow(unused_variables)]
    fn install_with(cards: [u32; 7], n: usize, in_range: bool) -> GhostV {
        #[cfg(kani)]
        unsafe {
            G_CARDS[0] = cards;
            G_CARDS[1] = cards;
            G_N = n;
            G_PHASE = 0;
            G_PRE_OK = true;
            let mut m = 0usize;
            while m < 128 {
                if (m as u8).count_ones() == 5 && m < (1usize << n) {
                    let v: u16 = kani::any();
                    kani::assume(!in_range || (v >= 1 && v <= 7462));
                    G_VALS[m] = v;
                }
                m += 1;
            }
        }
        GhostV { cards, n }
    }

    /// second card set (e.g. the suit-shifted cards): the same V applies to it, which is
    /// exactly the five-card clause "value unchanged by shifting" (C08.five_triple + C01.k3)
    #[allow(unused_variables)]
    pub fn install_phase1(&self, cards: [u32; 7]) {
        #[cfg(kani)]
        unsafe {
            G_CARDS[1] = cards;
        }
    }

    #[allow(unused_variables)]
    pub fn set_phase(&self, p: usize) {
        #[cfg(kani)]
        unsafe {
            G_PHASE = p;
        }
    }

    /// V of the sub-hand selected by `mask`
    pub fn v(&self, mask: u8) -> u16 {
        #[cfg(kani)]
        unsafe {
            G_VALS[mask as usize]
        }
        #[cfg(not(kani))]
        {
            use ckc_rs::cards::HandRanker;
            let mut a = [0u32; 5];
            let mut k = 0;
            let mut j = 0;
            while j < self.n {
                if mask & (1 << j) != 0 && k < 5 {
                    a[k] = self.cards[j];
                    k += 1;
                }
                j += 1;
            }
            Five::from(a).hand_rank_value()
        }
    }

    /// membership mask of a five-card hand w.r.t. the installed cards (None if a word is
    /// not one of them)
    pub fn mask(&self, a: &[u32; 5]) -> Option<u8> {
        let mut mask = 0u8;
        let mut i = 0;
        while i < 5 {
            let mut j = 0;
            let mut found = false;
            while j < 7 {
                if j < self.n && self.cards[j] == a[i] {
                    mask |= 1 << j;
                    found = true;
                }
                j += 1;
            }
            if !found {
                return None;
            }
            i += 1;
        }
        Some(mask)
    }
}

// ------------------------------------------------------------------ total five-card contract
// contract of <Five as HandRanker>::hand_rank_value_and_hand on five card-or-blank
// slots with any repetition (proved by C05.five_safe + C03.five_identity):
//   returns normally with some value; the hand is returned unchanged.
#[cfg(kani)]
pub fn five_vh_total(f: &Five) -> (u16, Five) {
    let v: u16 = kani::any();
    (v, *f)
}

// ------------------------------------------------------------------ "some value" contracts
// For obligations about what the *wrappers* (hand_rank, hand_rank_value, *_validated,
// evaluate::five_cards) do with the result of hand_rank_value_and_hand: the callee
// returns a value fixed by the harness and its input hand.
#[cfg(kani)]
pub static mut G_VAL: u16 = 0;
#[cfg(kani)]
pub static mut G_HAND: [u32; 5] = [0; 5];
#[cfg(kani)]
pub static mut G_CALLS: u32 = 0;

#[cfg(kani)]
pub fn five_vh_fixed(f: &Five) -> (u16, Five) {
    unsafe {
        G_CALLS += 1;
        (G_VAL, *f)
    }
}

#[cfg(kani)]
pub fn six_vh_fixed(_h: &Six) -> (u16, Five) {
    unsafe {
        G_CALLS += 1;
        (G_VAL, Five::from(G_HAND))
    }
}

#[cfg(kani)]
pub fn seven_vh_fixed(_h: &Seven) -> (u16, Five) {
    unsafe {
        G_CALLS += 1;
        (G_VAL, Five::from(G_HAND))
    }
}

/// sets the value the fixed stubs return (no-op natively)
#[allow(unused_variables)]
pub fn set_fixed(v: u16, hand: [u32; 5]) {
    #[cfg(kani)]
    unsafe {
        G_VAL = v;
        G_HAND = hand;
        G_CALLS = 0;
    }
}

// "some value" contract for hand_rank_value_validated (used to check hand_rank_validated)
#[cfg(kani)]
pub fn five_validated_fixed(_f: &Five) -> u16 {
    unsafe { G_VAL }
}

#[cfg(kani)]
pub fn six_validated_fixed(_h: &Six) -> u16 {
    unsafe { G_VAL }
}

#[cfg(kani)]
pub fn seven_validated_fixed(_h: &Seven) -> u16 {
    unsafe { G_VAL }
}
