#!/usr/bin/env python3
"""Mechanical extraction of Five::find_in_products from /repo for Verus.

Copies the function's signature and body VERBATIM from /repo/src/cards/five.rs into a
single-file Verus crate and splices ghost text (requires/ensures/invariant/decreases,
two lemma calls) from find_in_products.contract at syntactic anchors.

Dropped: the attributes and doc comments above the function, the enclosing `impl Five`
(the function is associated and uses no Self). Replaced: `crate::lookups::PRODUCTS`
resolves to a generated module whose table literal comes from products.snip.
Exit status / return: raises ExtractError when an anchor is lost (driver: exit 2)."""
import hashlib, os, re, sys

HERE = os.path.dirname(os.path.abspath(__file__))
SRC = "/repo/src/cards/five.rs"
SNIP = "/repo/src/lookups/products.snip"


class ExtractError(Exception):
    pass


def match_brace(text, start):
    """index just after the brace matching text[start] == '{' (ignores braces in // comments)"""
    assert text[start] == "{"
    depth = 0
    i = start
    n = len(text)
    while i < n:
        c = text[i]
        if text.startswith("//", i):
            j = text.find("\n", i)
            i = n if j < 0 else j
            continue
        if c == "{":
            depth += 1
        elif c == "}":
            depth -= 1
            if depth == 0:
                return i + 1
        i += 1
    raise ExtractError("unbalanced braces")


def read_contract():
    sec = {}
    cur = None
    for line in open(os.path.join(HERE, "find_in_products.contract")):
        if line.startswith("#") and not line.startswith("#["):
            continue
        m = re.match(r"^\[([a-z-]+)\]\s*$", line)
        if m:
            cur = m.group(1)
            sec[cur] = []
        elif cur is not None:
            sec[cur].append(line.rstrip("\n"))
    return {k: "\n".join(v).strip("\n") for k, v in sec.items()}


def extract_function(src_text):
    m = re.search(r"pub\s+fn\s+find_in_products\s*\(\s*key\s*:\s*usize\s*\)\s*->\s*usize\s*\{", src_text)
    if not m:
        raise ExtractError("anchor lost: `pub fn find_in_products(key: usize) -> usize {` not found in " + SRC)
    open_idx = m.end() - 1
    end = match_brace(src_text, open_idx)
    sig = src_text[m.start():open_idx].rstrip()
    body = src_text[open_idx + 1:end - 1]
    return sig, body, (m.start(), end)


def table_literal():
    lines = [l for l in open(SNIP).read().splitlines() if not l.strip().startswith("//")]
    lit = "\n".join(lines).strip()
    if not (lit.startswith("[") and lit.endswith("]")):
        raise ExtractError("products.snip is not a bracketed array literal")
    n = len(re.findall(r"\d+", lit))
    if n != 4888:
        raise ExtractError("products.snip has %d entries, the contract is stated for 4888" % n)
    return lit


def build(out_path, must_fail_twin=False):
    src = open(SRC).read()
    sig, body, span = extract_function(src)
    c = read_contract()
    # signature: named return value
    sig2, n = re.subn(r"->\s*usize\s*$", "-> " + c["returns"], sig)
    if n != 1:
        raise ExtractError("anchor lost: return type")
    # loop: ghost clauses go between the while condition and the loop body
    wm = list(re.finditer(r"\bwhile\b([^{]*)\{", body))
    if len(wm) != 1:
        raise ExtractError("anchor lost: expected exactly one `while` loop in find_in_products, found %d" % len(wm))
    w = wm[0]
    body2 = body[:w.end() - 1].rstrip() + "\n" + c["while"] + "\n        {" + body[w.end():]
    spec = c["spec"]
    if must_fail_twin:
        spec = spec.rstrip().rstrip(",") + ",\n        false,"
    fn_text = (c["attributes"] + "\n" + sig2 + "\n" + spec + "\n{\n" + c["body-head"] + "\n" + body2 + "}\n")
    if must_fail_twin:
        # vacuity guard: the same function with `ensures false` appended must be REJECTED
        real_fn = (c["attributes"] + "\n" + sig2 + "\n" + c["spec"] + "\n{\n" + c["body-head"] + "\n" + body2 + "}\n")
        twin = fn_text.replace("fn find_in_products(", "fn find_in_products_must_fail_twin(", 1)
        fn_text = real_fn + "\n// ---- must-fail twin (vacuity guard) ----\n" + twin
    prelude = open(os.path.join(HERE, "prelude.rs.in")).read()
    text = prelude.replace("@@TABLE@@", table_literal()).replace("@@FUNCTION@@", fn_text)
    with open(out_path, "w") as f:
        f.write(text)
    return {
        "source": SRC, "span_bytes": list(span),
        "sha256_source_span": hashlib.sha256(src[span[0]:span[1]].encode()).hexdigest(),
        "sha256_extracted_body": hashlib.sha256(body.encode()).hexdigest(),
        # the body is copied in two verbatim pieces (before / after the loop's opening brace)
        "verbatim": body[:w.end() - 1].rstrip() in text and body[w.end():] in text and sig.split("->")[0].strip() in text,
        "function_text": fn_text,
    }


if __name__ == "__main__":
    info = build(sys.argv[1], must_fail_twin=len(sys.argv) > 2 and sys.argv[2] == "twin")
    print(info["function_text"])
    print("verbatim:", info["verbatim"])
