# second part of the obligation registry (exec'd by obs_def.py): the evaluator properties
FIND_STUB = {"target": "ckc_rs::cards::five::Five::find_in_products", "with": "crate::stubs::find_in_products_contract",
             "proved_by": "C05.find_total (Verus: total, result < 4888, function of the key)", "proved_by_obs": ["C05.find_total"]}
V_STUB = {"target": "<ckc_rs::cards::five::Five as ckc_rs::cards::HandRanker>::hand_rank_value_and_hand",
          "with": "crate::stubs::five_vh_ghost_v",
          "proved_by": "C01.rep_* + C01.k1 + C01.k3 (value in 1..=7462, function of the card set) and C03.five_identity (hand unchanged)",
          "proved_by_obs": ["C01.rep_distinct", "C01.rep_quads", "C01.rep_full_house", "C01.rep_trips", "C01.rep_two_pair", "C01.rep_pair", "C01.k1", "C01.k3", "C03.five_identity"]}
LINK_REPS = ["C06.link_rep_distinct", "C06.link_rep_quads", "C06.link_rep_full_house", "C06.link_rep_trips", "C06.link_rep_two_pair", "C06.link_rep_pair"]
V_STUB_RANGE = dict(V_STUB, proved_by="C06.link_rep_* (value in 1..=7462 for every class) + C01.k1 + C01.k3 + C01.sort_lemma (function of the card set) and C03.five_identity",
                    proved_by_obs=LINK_REPS + ["C01.k1", "C01.k3", "C01.sort_lemma", "C03.five_identity"])
V_STUB_ANY = dict(V_STUB, proved_by="C01.k1 + C01.k3 + C01.sort_lemma (any value, a function of the card set) and C03.five_identity (hand unchanged)",
                  proved_by_obs=["C01.k1", "C01.k3", "C01.sort_lemma", "C03.five_identity"])
TOTAL_STUB = {"target": "<ckc_rs::cards::five::Five as ckc_rs::cards::HandRanker>::hand_rank_value_and_hand",
              "with": "crate::stubs::five_vh_total", "proved_by": "C05.five_safe (returns normally) and C03.five_identity (hand unchanged)",
              "proved_by_obs": ["C05.five_safe", "C03.five_identity"]}
FIXED5 = {"target": "<ckc_rs::cards::five::Five as ckc_rs::cards::HandRanker>::hand_rank_value_and_hand",
          "with": "crate::stubs::five_vh_fixed", "proved_by": "none needed: the obligation is conditional on the callee returning (v, self); v is arbitrary"}
FIXED6 = {"target": "<ckc_rs::cards::six::Six as ckc_rs::cards::HandRanker>::hand_rank_value_and_hand",
          "with": "crate::stubs::six_vh_fixed", "proved_by": "none needed: conditional on the callee returning (v, hand); v arbitrary"}
FIXED7 = {"target": "<ckc_rs::cards::seven::Seven as ckc_rs::cards::HandRanker>::hand_rank_value_and_hand",
          "with": "crate::stubs::seven_vh_fixed", "proved_by": "none needed: conditional on the callee returning (v, hand); v arbitrary"}

EVAL5 = ["Five::hand_rank_value_and_hand", "Five::hand_rank_value", "Five::unique", "Five::not_unique", "Five::find_in_products",
         "Five::or_rank_bits", "Five::is_flush", "Five::multiply_primes", "lookups::FLUSHES/UNIQUE_5/PRODUCTS/VALUES"]

# ------------------------------------------------------------------ C05
ob("C05.find_total", "-", {"C05": "P", "C01": "H", "C04": "H", "C02": "H", "C03": "H", "C08": "H", "C09": "H", "C06": "H", "C13": "H"},
   "Verus, on the function text extracted verbatim from /repo: forall key:usize. find_in_products terminates, no index out of bounds, no arithmetic under/overflow, result r < 4888, key present => PRODUCTS[r] == key, key absent => r == 0 (loop invariant over the strictly increasing 4888-entry table)",
   ["Five::find_in_products", "lookups::PRODUCTS"], engine="verus", timeout=900, concretise=["C05.find_kb"])
ob("C05.products_floor", "c05::products_floor", {"C05": "H", "C01": "H"},
   "forall i<4888: PRODUCTS[i] >= 48 and PRODUCTS[i-1] < PRODUCTS[i] (table of the .snip file; cross-check of the Verus table lemma)", ["lookups::PRODUCTS"])
ob("C05.five_safe", "c05::five_safe", {"C05": "P"},
   "forall five slots over {52 cards, blank}, any repetition/order: hand_rank_value_and_hand returns normally (no panic/overflow/out-of-bounds); search = its contract. The wrappers (hand_rank_value, hand_rank, *_validated) are total by C01.entry_points",
   EVAL5 + ["Five::hand_rank", "Five::hand_rank_value_validated", "Five::hand_rank_validated", "Five::is_valid"],
   unwind=9, stubs=[FIND_STUB], timeout=900, weight=3, concretise=["C05.blank_five_invalid"])
ob("C05.blank_five_invalid", "c05::blank_five_invalid", {"C05": "P"},
   "forall five slots over {cards, blank} with at least one blank: value 0, hand_rank() is Invalid, validated forms too (search = its contract; the table fact 'no product below 48' is C05.products_floor)",
   EVAL5 + ["Five::hand_rank", "HandRank::is_invalid"], unwind=9, stubs=[FIND_STUB], timeout=900, weight=3)
ob("C05.six_safe", "c05::six_safe", {"C05": "P"},
   "forall six slots over {cards, blank}, any repetition: Six::hand_rank_value_and_hand returns normally; five-card evaluation = its total contract (any value, hand unchanged); wrappers total by C02.six_entry_points",
   ["Six::hand_rank_value_and_hand", "Six::hand_rank_value", "Six::hand_rank", "Six::hand_rank_value_validated", "Six::hand_rank_validated", "Six::five_from_permutation", "Five::sort"],
   unwind=27, stubs=[TOTAL_STUB], timeout=900, weight=3)
ob("C05.seven_safe", "c05::seven_safe", {"C05": "P"},
   "forall seven slots over {cards, blank}, any repetition: Seven::hand_rank_value_and_hand returns normally; five-card evaluation = its total contract; wrappers total by C02.seven_entry_points",
   ["Seven::hand_rank_value_and_hand", "Seven::hand_rank_value", "Seven::hand_rank", "Seven::hand_rank_value_validated", "Seven::hand_rank_validated", "Seven::five_from_permutation", "Five::sort"],
   unwind=31, stubs=[TOTAL_STUB], timeout=1200, weight=4)
ob("C05.find_kb", "c05::find_kb", {"C05": "P"},
   "Kani twin of C05.find_total (supplies the concrete key for a replay): forall key:usize, real code, 13-step search fully unwound with unwinding assertions: returns normally, r < 4888, absent key => r == 0",
   ["Five::find_in_products"], tier="thorough", unwind=15, timeout=2400, weight=4)

# ------------------------------------------------------------------ C01
ob("C01.k1", "c01::k1", {"C01": "H", "C03": "H", "C08": "H", "C09": "H", "C02": "H", "C04": "H", "C06": "H", "C13": "H"},
   "forall five distinct cards, any slot order: or_rank_bits == OR(1<<r_i); is_flush <=> one suit; multiply_primes == product of the rank primes as a mathematical integer (no u32 wrap)",
   ["Five::or_rank_bits", "Five::is_flush", "Five::multiply_primes", "Five::and_bits", "Five::or_bits"], unwind=7, timeout=600)
ob("C01.k3", "c01::k3", {"C01": "H", "C03": "H", "C08": "H", "C09": "H", "C02": "H", "C04": "H", "C06": "H", "C13": "H"},
   "forall five words whose OR-ed rank field is <= 7936: hand_rank_value() == is_flush() ? FLUSHES[i] : UNIQUE_5[i] != 0 ? UNIQUE_5[i] : (PRODUCTS[idx] == p ? VALUES[idx] : 0) over the .snip files, with i = or_rank_bits(), p = multiply_primes(), idx = search(p): the value is a function of the triple (or_rank_bits, is_flush, multiply_primes) only; returns normally",
   EVAL5, unwind=7, stubs=[FIND_STUB], timeout=900, weight=2)
for g, cats in [("distinct", "straight flush / flush / straight / high card (2574 classes)"), ("quads", "four of a kind (156)"),
                ("full_house", "full house (156)"), ("trips", "three of a kind (858)"), ("two_pair", "two pair (858)"), ("pair", "pair (2860)")]:
    ob("C01.rep_%s" % g, "c01::rep_%s" % g, {"C01": "P", "C02": "H"},
       "for EVERY class of %s (symbolic sorted rank tuple + flush flag): the canonical hand of the class evaluates, through the real code end to end (real search), to ordinal(class), in 1..=7462" % cats,
       EVAL5, unwind=15, timeout=1500, weight=4, concretise=["C01.direct_any"])
ob("C01.entry_points", "c01::entry_points", {"C01": "P", "C06": "P", "C05": "P", "C04": "P"},
   "forall five words, forall v: if hand_rank_value_and_hand returns (v, self) then hand_rank_value() == v and hand_rank() == HandRank::from(v); on five distinct real cards hand_rank_value_validated() == v and evaluate::five_cards == v; on any other words the validated forms return normally with v or 0",
   ["Five::hand_rank_value", "Five::hand_rank", "Five::hand_rank_value_validated", "evaluate::five_cards"],
   unwind=9, stubs=[FIXED5], timeout=900, weight=2,
   clause_props={"hand_rank_value_delegates": ["C01"], "hand_rank_is_from_value": ["C01", "C06"],
                 "validated_same_value_on_real_hands": ["C01", "C04"], "free_function_same_value_on_real_hands": ["C01", "C04"],
                 "validated_returns_value_or_zero": ["C04"], "free_function_is_validated": ["C04"]})
ob("C04.validated_five", "c01::validated_five", {"C04": "P"},
   "forall five words, forall v: is_valid <=> every slot a card word and no two equal; hand_rank_value_validated() and evaluate::five_cards are 0 exactly when not valid (the evaluation is not called) and otherwise the value v the evaluation returns",
   ["Five::is_valid", "Five::hand_rank_value_validated", "evaluate::five_cards"],
   unwind=9, stubs=[FIXED5], timeout=900, weight=2)
for g in ["flush", "distinct_nonflush", "quads", "full_house", "trips", "two_pair"] + ["pair_%d%d" % (i, j) for i in range(5) for j in range(i + 1, 5)]:
    ob("C01.direct_%s" % g, "c01::direct_%s" % g, {"C01": "P"},
       "forall five distinct cards of category group '%s' in ANY slot order and suit assignment, real code end to end, no stubs: hand_rank_value() == ordinal(sorted ranks, same suit)" % g,
       EVAL5, tier="thorough", unwind=15, timeout=3600, weight=4, concretise=["C01.direct_any"])
ob("C01.direct_any", "c01::direct_any", {"C01": "N", "C06": "N", "C13": "N"},
   "native only (concretiser body): any five distinct cards, any order, all four entry points == ordinal", EVAL5, engine="native")

# ------------------------------------------------------------------ C03
ob("C03.five_identity", "c03::five_identity", {"C03": "P", "C02": "H", "C09": "H", "C08": "H", "C05": "H"},
   "forall five words indexing the tables: hand_rank_value_and_hand().1 == *self and .0 == hand_rank_value(); search = its contract",
   ["Five::hand_rank_value_and_hand", "Five::hand_rank_value"], unwind=23, stubs=[FIND_STUB], timeout=600)
ob("C03.six_witness", "c03::six_witness", {"C03": "P"},
   "forall six distinct real cards, any slot order: the reported hand is strictly descending, its five words are distinct input cards, and V(that subset) == the reported value (five-card evaluation = ghost V)",
   ["Six::hand_rank_value_and_hand", "Six::five_from_permutation", "Five::sort"], unwind=130, stubs=[V_STUB_ANY], timeout=1500, weight=4)
ob("C03.seven_witness", "c03::seven_witness", {"C03": "P"},
   "forall seven distinct real cards, any slot order: the reported hand is strictly descending, its five words are distinct input cards, and V(that subset) == the reported value (five-card evaluation = ghost V)",
   ["Seven::hand_rank_value_and_hand", "Seven::five_from_permutation", "Five::sort"], unwind=130, stubs=[V_STUB_ANY], timeout=2400, weight=6)

# ------------------------------------------------------------------ C02 / C09
ob("C02.six_min", "c02::six_min", {"C02": "P", "C09": "P"},
   "forall six distinct real cards, any slot order: hand_rank_value_and_hand().0 == min over ALL 6 weight-5 membership masks of V (subsets enumerated independently of the crate's table; five-card evaluation = ghost V)",
   ["Six::hand_rank_value_and_hand", "Six::five_from_permutation", "Six::FIVE_CARD_PERMUTATIONS"], unwind=130, stubs=[V_STUB_RANGE], timeout=1500, weight=4,
   concretise=["C02.six_rule_based"])
ob("C02.seven_min", "c02::seven_min", {"C02": "P", "C09": "P"},
   "forall seven distinct real cards, any slot order: hand_rank_value_and_hand().0 == min over ALL 21 weight-5 membership masks of V (five-card evaluation = ghost V)",
   ["Seven::hand_rank_value_and_hand", "Seven::five_from_permutation", "Seven::FIVE_CARD_PERMUTATIONS"], unwind=130, stubs=[V_STUB_RANGE], timeout=2400, weight=6,
   concretise=["C02.seven_rule_based"])
ob("C02.six_entry_points", "c02::six_entry_points", {"C02": "P", "C04": "P", "C06": "P", "C05": "P"},
   "forall six words, forall v: if Six::hand_rank_value_and_hand returns (v, hand) then hand_rank_value() == v, hand_rank() == from(v), hand_rank_value_validated() == (is_valid ? v : 0)",
   ["Six::hand_rank_value", "Six::hand_rank", "Six::hand_rank_value_validated", "Six::is_valid"],
   unwind=12, stubs=[FIXED6], timeout=1200, weight=3,
   clause_props={"hand_rank_value_delegates": ["C02"], "hand_rank_is_from_value": ["C02", "C06"], "validated": ["C04"], "is_valid_exact": ["C04"]})
ob("C02.seven_entry_points", "c02::seven_entry_points", {"C02": "P", "C04": "P", "C06": "P", "C05": "P"},
   "forall seven words, forall v: if Seven::hand_rank_value_and_hand returns (v, hand) then hand_rank_value() == v, hand_rank() == from(v), hand_rank_value_validated() == (is_valid ? v : 0)",
   ["Seven::hand_rank_value", "Seven::hand_rank", "Seven::hand_rank_value_validated", "Seven::is_valid"],
   unwind=12, stubs=[FIXED7], timeout=1500, weight=4,
   clause_props={"hand_rank_value_delegates": ["C02"], "hand_rank_is_from_value": ["C02", "C06"], "validated": ["C04"], "is_valid_exact": ["C04"]})
VAL5 = {"target": "<ckc_rs::cards::five::Five as ckc_rs::cards::HandRanker>::hand_rank_value_validated", "with": "crate::stubs::five_validated_fixed", "proved_by": "none needed: conditional on the callee returning v; v arbitrary"}
VAL6 = {"target": "<ckc_rs::cards::six::Six as ckc_rs::cards::HandRanker>::hand_rank_value_validated", "with": "crate::stubs::six_validated_fixed", "proved_by": "none needed: conditional on the callee returning v; v arbitrary"}
VAL7 = {"target": "<ckc_rs::cards::seven::Seven as ckc_rs::cards::HandRanker>::hand_rank_value_validated", "with": "crate::stubs::seven_validated_fixed", "proved_by": "none needed: conditional on the callee returning v; v arbitrary"}
ob("C02.validated_rank", "c02::validated_rank", {"C04": "P", "C06": "P", "C05": "P"},
   "forall words, forall v: if hand_rank_value_validated returns v then hand_rank_validated() == HandRank::from(v), for Five, Six and Seven",
   ["Five::hand_rank_validated", "Six::hand_rank_validated", "Seven::hand_rank_validated"], unwind=5, stubs=[VAL5, VAL6, VAL7], timeout=900, weight=2,
   clause_props={"five": ["C04", "C06"], "six": ["C04", "C06"], "seven": ["C04", "C06"]})
ob("C09.min_lemma", "c09::min_lemma", {"C09": "P"},
   "forall value functions V on the five-subsets of seven slots: min over the 21 subsets == min over the seven six-subsets of (min over the six subsets inside), the seven-min <= every six-min, every six-min <= every five inside it (composition of the two value contracts)",
   [], unwind=130, timeout=900, weight=2)
ob("C09.direct", "c09::direct", {"C09": "P"},
   "forall seven distinct cards, a symbolic dropped slot and a second one: real Seven, real Six built from six of the cards, real Five built from five of those: v7 <= v6 <= v5 (five-card evaluation = ghost V)",
   ["Seven::hand_rank_value", "Six::hand_rank_value"], tier="thorough", unwind=130, stubs=[V_STUB_RANGE], timeout=3600, weight=8)

# ------------------------------------------------------------------ C08 (value part)
ob("C08.six_shift", "c08::six_shift", {"C08": "P"},
   "forall six distinct real cards: Six::shift_suit().hand_rank_value() == hand_rank_value() (ghost V keyed on the cards resp. the shifted cards = the five-card shift-invariance clause)",
   ["Six::shift_suit", "Six::hand_rank_value"], unwind=130, stubs=[V_STUB_ANY], timeout=1500, weight=4)
ob("C08.seven_shift", "c08::seven_shift", {"C08": "P"},
   "forall seven distinct real cards: Seven::shift_suit().hand_rank_value() == hand_rank_value() (ghost V as above)",
   ["Seven::shift_suit", "Seven::hand_rank_value"], unwind=130, stubs=[V_STUB_ANY], timeout=2400, weight=6)
# C08.five_shift_direct (real evaluator on a hand and on its shift, no stubs) was tried in the thorough tier:
# no verdict within 60 min, so it is not registered; value invariance rests on five_triple + k3.


# ------------------------------------------------------------------ native-only concretiser bodies
ob("C02.six_rule_based", "c02::six_rule_based", {"C02": "N"},
   "native only: six distinct cards, value == min over subsets of the rule-based ordinal", [], engine="native")
ob("C02.seven_rule_based", "c02::seven_rule_based", {"C02": "N"},
   "native only: seven distinct cards, value == min over subsets of the rule-based ordinal", [], engine="native")
ob("C06.cards_link_native", "c06::cards_link_native", {"C06": "N"},
   "native only: hand_rank() of five distinct cards has the category and class of the cards", [], engine="native")
ob("C13.name_native", "c13::name_native", {"C13": "N"},
   "native only: predicates agree with hand_rank().name", [], engine="native")

# ------------------------------------------------------------------ later additions (ob/extra.rs)
ob("C01.sort_lemma", "extra::sort_lemma", {"C01": "H", "C02": "H", "C03": "H", "C04": "H", "C06": "H", "C08": "H", "C09": "H", "C13": "H"},
   "spec-level arithmetic lemma: for all five ranks, sorting them (the network used by the oracle) preserves the OR of the rank bits, the product of the rank primes and the multiset: composes k1 + k3 + rep_* into 'every slot order'",
   [], timeout=1200, weight=2)
ob("C15.peel_all", "extra::peel_all", {"C15": "P"},
   "forall sets b < 2^52: peeling to exhaustion (53 peels, unrolled) lists exactly the members of b in strictly descending deck order, then blank with the set unchanged",
   ["BC64::peel"], tier="thorough", unwind=66, timeout=3600, weight=4)
ob("C12.card_token_bytes", "extra::card_token_bytes", {"C12": "P"},
   "every byte string of length <= 4 that is valid UTF-8: from_index == the card of its first two characters through the symbol tables, else blank; no panic",
   ["PokerCard::from_index", "parse::get_rank_and_suit"], tier="thorough", unwind=8, timeout=3600, weight=4,
   bounded="token length <= 4 bytes")

# ------------------------------------------------------------------ link between cards, value, category, class (real code)
for g, cats in [("distinct", "straight flush / flush / straight / high card"), ("quads", "four of a kind"), ("full_house", "full house"),
                ("trips", "three of a kind"), ("two_pair", "two pair"), ("pair", "pair")]:
    ob("C06.link_rep_%s" % g, "c06::link_rep_%s" % g, {"C06": "P", "C13": "P", "C04": "P", "C09": "H", "C02": "H"},
       "for EVERY class of %s (symbolic sorted tuple + flush flag): hand_rank() of the canonical hand, real code end to end, has a value in 1..=7462 and the category and class identifiers of the cards; is_flush / is_straight / is_straight_flush agree with the reported category" % cats,
       EVAL5 + ["Five::hand_rank", "HandRank::from", "HandRank::determine_name", "HandRank::determine_class", "Five::is_straight", "Five::is_straight_flush"],
       unwind=15, timeout=1800, weight=4, concretise=["C06.cards_link_native"],
       clause_props={"value_is_a_real_rank": ["C06", "C04", "C09", "C02"], "not_invalid": ["C06", "C04"],
                     "category_describes_cards": ["C06", "C13"], "class_describes_cards": ["C06"],
                     "straight_flush_predicate_agrees": ["C13"], "flush_predicate_agrees": ["C13"], "straight_predicate_agrees": ["C13"]})
