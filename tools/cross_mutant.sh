#!/bin/bash
# cross_mutant.sh <seed-id>  : apply a seeded change, run ALL twenty quick checks, undo it.
# Prints one line per property: exit code and the first VIOLATION/UNDECIDED line.
set -u
ID=$1
D=/verif/seeded/$ID
cd /verif
git -C /repo diff --quiet || { echo "/repo is dirty, refusing"; exit 2; }
git -C /repo apply $D/patch.diff || { echo "patch does not apply"; exit 2; }
trap 'git -C /repo checkout -- . ' EXIT
mkdir -p $D/cross
for i in 01 02 03 04 05 06 07 08 09 10 11 12 13 14 15 16 17 18 19 20; do
  P=C$i
  T0=$(date +%s)
  ./check $P quick > $D/cross/$P.out 2> $D/cross/$P.err; RC=$?
  T1=$(date +%s)
  echo "$ID $P exit=$RC wall=$((T1-T0))s :: $(grep -E '^(VIOLATION|UNDECIDED|failed obligation)' $D/cross/$P.out | head -2 | tr '\n' '|' | cut -c1-220)"
done
