#!/bin/bash
# run_mutant.sh <seed-id> <tier> <property>...   apply a seeded change to /repo, run checks, undo it
set -u
ID=$1; TIER=$2; shift 2
D=/verif/seeded/$ID
cd /verif
git -C /repo diff --quiet || { echo "/repo is dirty, refusing"; exit 2; }
git -C /repo apply $D/patch.diff || { echo "patch does not apply"; exit 2; }
trap 'git -C /repo checkout -- . ' EXIT
for P in "$@"; do
  T0=$(date +%s)
  ./check $P $TIER > $D/run_$P.$TIER.out 2> $D/run_$P.$TIER.err; RC=$?
  T1=$(date +%s)
  echo "$ID $P $TIER exit=$RC wall=$((T1-T0))s :: $(grep -E '^(VIOLATION|UNDECIDED|KNOWN-FINDING|failed obligation)' $D/run_$P.$TIER.out | head -4 | tr '\n' '|')"
  for f in $(grep -oE 'replay=[^ ]+' $D/run_$P.$TIER.out | cut -d= -f2); do cp $f $D/ 2>/dev/null; done
done
