#!/usr/bin/env python3
"""Writes /verif/MANIFEST.json from manifest_meta.json (per-property texts) and
obligations.json (which properties have obligations)."""
import json, os, sys
ROOT = os.path.dirname(os.path.dirname(os.path.abspath(__file__)))
meta = json.load(open(os.path.join(ROOT, "manifest_meta.json")))
obs = json.load(open(os.path.join(ROOT, "obligations.json")))
props = [json.loads(l) for l in open(os.path.join(ROOT, "properties.jsonl"))]
have = {}
for o in obs:
    for p in o["props"]:
        have.setdefault(p, []).append(o)
checks, na = [], []
for p in props:
    pid = p["id"]
    m = meta["properties"].get(pid, {})
    if pid in have and m.get("claimed", True) and "level_text" in m:
        checks.append({
            "property_id": pid,
            "quick_cmd": "./check %s quick" % pid,
            "thorough_cmd": "./check %s thorough" % pid,
            "evidence_file": "/verif/evidence/%s.json" % pid,
            "replay_cmd_template": "./check replay {path}",
            "engine": m.get("engine", "kani"),
            "level_claimed": {"category": "proof", "text": m["level_text"], "design_ref": m.get("design_ref", "DESIGN.md section 6, " + pid)},
            "level_note": m["level_note"],
            "technique": m.get("technique", "contract-based deductive verification: function contracts in harness form on the real crate, discharged by Kani/CBMC for all inputs"),
        })
    else:
        na.append({"property_id": pid, "reason": m.get("na_reason", "check not built yet (work in progress; see DESIGN.md section 6 for the plan)")})
man = {
    "version": 1,
    "setup_cmd": "./check setup",
    "hooks": meta["hooks"],
    "engines": meta["engines"],
    "checks": checks,
    "notes": meta["notes"],
    "not_applicable": na,
}
json.dump(man, open(os.path.join(ROOT, "MANIFEST.json"), "w"), indent=1)
print("claimed:", [c["property_id"] for c in checks])
print("not_applicable:", [n["property_id"] for n in na])
