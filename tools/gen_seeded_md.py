#!/usr/bin/env python3
"""Rewrites the section between <!-- SEEDED:BEGIN --> and <!-- SEEDED:END --> of DESIGN.md from
seeded/*/meta.json and the recorded check outputs (seeded/<id>/run_<prop>.<tier>.out)."""
import json, os, glob, re
ROOT = os.path.dirname(os.path.dirname(os.path.abspath(__file__)))
rows = []
for d in sorted(glob.glob(os.path.join(ROOT, "seeded", "*"))):
    if not os.path.isdir(d):
        continue
    sid = os.path.basename(d)
    if sid.startswith("harmless"):
        continue  # negative controls are described in the text of section 12
    m = json.load(open(os.path.join(d, "meta.json")))
    res = []
    for f in sorted(glob.glob(os.path.join(d, "run_*.out"))):
        prop, tier = os.path.basename(f)[4:-4].split(".")
        txt = open(f).read()
        vio = re.findall(r"^failed obligation (\S+): (.*)$", txt, re.M)
        vline = re.findall(r"^VIOLATION property=(\S+) replay=(\S+)(.*)$", txt, re.M)
        und = re.findall(r"^UNDECIDED property=\S+ obligation=(\S+): (.*)$", txt, re.M)
        if vline:
            obs = ", ".join("`%s` (%s)" % (o, c.split(";")[0].strip()[:70]) for o, c in vio[:2])
            how = "no-failing-input-found" if any("no-failing-input-found" in v[2] for v in vline) else "replayed on the real code"
            res.append("%s %s: **VIOLATION** via %s; %s" % (prop, tier, obs, how))
        elif und:
            res.append("%s %s: undecided (exit 2): %s" % (prop, tier, "; ".join("`%s` %s" % (o, w[:50]) for o, w in und[:2])))
        elif "obligations discharged" in txt:
            res.append("%s %s: passes (exit 0)" % (prop, tier))
        else:
            res.append("%s %s: ?" % (prop, tier))
    summ = re.sub(r"\s+", " ", m.get("summary", ""))
    if len(summ) > 230:
        summ = summ[:227] + "..."
    need = re.sub(r"\s+", " ", m.get("needs_to_manifest", ""))
    if len(need) > 160:
        need = need[:157] + "..."
    rows.append("| %s | %s | %s | %s | %s |" % (sid, m.get("property"), summ.replace("|", "/"), need.replace("|", "/"), "<br>".join(res) or "not run yet"))
table = ["| seed | property | change | needs | checks run on it |", "|---|---|---|---|---|"] + rows
p = os.path.join(ROOT, "DESIGN.md")
s = open(p).read()
b, e = "<!-- SEEDED:BEGIN -->", "<!-- SEEDED:END -->"
if b in s:
    s = s[:s.index(b) + len(b)] + "\n" + "\n".join(table) + "\n" + s[s.index(e):]
    open(p, "w").write(s)
print(len(rows), "rows")
