#!/bin/bash
# confirm_mutant.sh <worktree> <seed-id>
# Confirms a sub-agent's change in its scratch worktree: the source diff equals patch.diff,
# the unedited suite passes with the change, the demo fails with it and passes without it.
# On success files it under /verif/seeded/<seed-id>/.
set -u
WT=$1; ID=$2
cd "$WT" || exit 2
export CARGO_NET_OFFLINE=true
LOG=/tmp/confirm_$ID.log; : > $LOG
[ -f _mut/patch.diff ] && [ -f _mut/demo.rs ] && [ -f _mut/meta.json ] || { echo "$ID: missing deliverables"; exit 1; }
# state: change applied?
git checkout -q -- src/ 2>/dev/null
git apply --check _mut/patch.diff 2>>$LOG || { echo "$ID: patch does not apply to clean tree"; exit 1; }
mkdir -p tests; cp _mut/demo.rs tests/demo.rs
# without the change: demo passes
cargo test --offline --test demo >>$LOG 2>&1; BASE_DEMO=$?
git apply _mut/patch.diff
# with the change: compiles, suite passes (excluding the demo), demo fails
cargo nextest run --offline --no-fail-fast -E 'not binary(demo)' >>$LOG 2>&1; SUITE=$?
NPASS=$(grep -E "tests run:" $LOG | tail -1)
cargo test --offline --test demo >>$LOG 2>&1; MUT_DEMO=$?
echo "$ID: base_demo_exit=$BASE_DEMO suite_exit=$SUITE [$NPASS] mutant_demo_exit=$MUT_DEMO"
if [ $BASE_DEMO -eq 0 ] && [ $SUITE -eq 0 ] && [ $MUT_DEMO -ne 0 ]; then
  D=/verif/seeded/$ID; mkdir -p $D
  cp _mut/patch.diff $D/patch.diff; cp _mut/demo.rs $D/demo.rs
  python3 - "$D" "$ID" "$NPASS" <<'PY'
import json,sys
d,i,npass=sys.argv[1:4]
m=json.load(open('_mut/meta.json'))
m['seed_id']=i
m['confirmed_by_me']={'unchanged_tree_demo':'passes','with_change_existing_suite':npass.strip(),'with_change_demo':'fails',
  'commands':["cargo test --offline --test demo (clean tree)","git apply patch.diff","cargo nextest run --offline --no-fail-fast -E 'not binary(demo)'","cargo test --offline --test demo"]}
json.dump(m,open(d+'/meta.json','w'),indent=1)
PY
  echo "$ID: CONFIRMED -> $D"
else
  echo "$ID: NOT CONFIRMED (see $LOG)"; exit 1
fi
