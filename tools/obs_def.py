#!/usr/bin/env python3
"""Source of /verif/obligations.json (run after editing: python3 tools/obs_def.py).

Each obligation = one contract in harness form (contracts/src/ob/<file>.rs::<fn>).
props: {property: role}  role P = instance of the property statement on real entry
points; H = helper contract that makes a P-obligation tractable / carries a stub.
bounded: text of the bound when the harness is a bounded stand-in (never counted).
"""
import json, os

ROOT = os.path.dirname(os.path.dirname(os.path.abspath(__file__)))
OBS = []


def ob(name, fn, props, statement, functions=(), tier="quick", unwind=None, stubs=(), timeout=900,
       weight=1, bounded=None, solver=None, engine="kani", concretise=(), **kw):
    d = dict(name=name, fn=fn, props=props, statement=statement, functions=list(functions), tier=tier,
             unwind=unwind, stubs=list(stubs), timeout=timeout, weight=weight, bounded=bounded, solver=solver,
             engine=engine, concretise=list(concretise))
    d.update(kw)
    OBS.append(d)


SIZES = [(2, "Two"), (3, "Three"), (4, "Four"), (5, "Five"), (6, "Six"), (7, "Seven")]
WORD = {2: "two", 3: "three", 4: "four", 5: "five", 6: "six", 7: "seven"}

# ------------------------------------------------------------------ C10
ob("C10.filter_exact", "c10::filter_exact", {"C10": "P", "C04": "P"},
   "forall w:u32. CardNumber::filter(w) == PokerCard::filter(w) == (is_card(w) ? w : 0); is_blank(w) <=> w == 0",
   ["CardNumber::filter", "PokerCard::filter", "PokerCard::is_blank"], clause_props={"is_blank": ["C10"]})
ob("C10.constants", "c10::constants", {"C10": "P"},
   "forall (r,s). the constant named <RANK>_<SUIT> and POKER_DECK[deck_pos(r,s)] equal layout(r,s); layout is injective",
   ["CardNumber::* (52 constants)", "deck::POKER_DECK", "Deck::arr"])
ob("C10.create", "c10::create", {"C10": "P"},
   "forall 14x5 enum pairs. create(rank,suit) == layout(r,s), or blank if either member is BLANK; binary_signature == 1<<(12+s)",
   ["PokerCard::create", "CardRank::bits", "CardRank::number", "CardRank::prime", "CardRank::shift8", "CardSuit::binary_signature"])
ob("C10.accessors", "c10::accessors", {"C10": "P"},
   "forall card (r,s). get_card_rank/suit, get_rank_bit/flag/prime, get_suit_bit/flag, get_rank_char, get_suit_char/letter, is_blank read the layout fields back",
   ["PokerCard::get_card_rank", "PokerCard::get_card_suit", "PokerCard::get_rank_bit", "PokerCard::get_rank_flag",
    "PokerCard::get_rank_prime", "PokerCard::get_suit_bit", "PokerCard::get_suit_flag", "PokerCard::get_rank_char",
    "PokerCard::get_suit_char", "PokerCard::get_suit_letter", "PokerCard::is_blank", "PokerCard::as_u32"])

# ------------------------------------------------------------------ C20
ob("C20.flags", "c20::flags", {"C20": "P"},
   "forall card x 8 mark subsets x 6 application orders: only bits 29-31 change (one per mark), all accessors and characters read the same, each mark is idempotent, strip returns the card",
   ["PokerCard::flag_as_pair", "PokerCard::flag_as_trips", "PokerCard::flag_as_quads", "PokerCard::strip_multiples_flags",
    "PokerCard::get_card_rank", "PokerCard::get_card_suit", "PokerCard::get_rank_prime", "PokerCard::get_rank_char", "PokerCard::get_suit_char"],
   unwind=5)
ob("C20.order", "c20::order", {"C20": "P"},
   "forall two cards x two mark subsets: marked > unmarked card; quads-marked > any word without quads; trips > at most pair; pair > unmarked",
   ["PokerCard::flag_as_pair", "PokerCard::flag_as_trips", "PokerCard::flag_as_quads"], unwind=5)

# ------------------------------------------------------------------ C11
ob("C11.card_order", "c11::card_order", {"C11": "P"},
   "forall two cards: w1 < w2 <=> (r1,s1) <lex (r2,s2); equal iff same card; blank (0) below every card", ["CKCNumber integer order"])
for n, T in SIZES:
    ob("C11.sort_%d" % n, "c11::sort_%d" % n, {"C11": "P"},
       "forall %d words: %s::sort() is non-increasing, the same multiset, idempotent, leaves self unchanged, and equals sort_in_place()" % (n, T),
       ["%s::sort" % T, "%s::sort_in_place" % T, "%s::from" % T, "%s::to_arr" % T], unwind=4 * n + 3,
       timeout=1200 if n >= 6 else 600, weight=4 if n >= 6 else 1)

# ------------------------------------------------------------------ C19
for n, T in SIZES:
    ob("C19.%s" % WORD[n], "c19::%s" % WORD[n], {"C19": "P"},
       "forall %d words, x, slot k: constructors/From then accessors, to_arr, iter return the words in order; set_k(x) yields old.to_arr() with [k]:=x (frame)%s" % (
           n, "; five_from_permutation(p) selects slots[p_i] for all p in [0,%d)^5" % n if n >= 6 else ""),
       ["%s::from" % T, "%s::to_arr" % T, "%s::iter" % T, "%s::first..%s" % (T, WORD[n]), "%s::set_*" % T] +
       (["Two::new", "From<&[u32;2]>"] if n == 2 else []) + (["Five::new"] if n == 5 else []) +
       (["Six::from_1_and_2_and_3", "Six::five_from_permutation"] if n == 6 else []) +
       (["Seven::new", "Seven::five_from_permutation"] if n == 7 else []), unwind=4 * n + 3)
ob("C19.seven_two_writes", "c19::seven_two_writes", {"C19": "P"},
   "forall 7 words, two setter calls on symbolic slots with symbolic values: the container equals the array that received the same two writes (induction step of 'any sequence of setters')",
   ["Seven::set_*"], unwind=31)

# ------------------------------------------------------------------ C14
ob("C14.from_ckc", "c14::from_ckc", {"C14": "P"},
   "forall w:u32. BinaryCard::from_ckc(w) == (is_card(w) ? 1<<(51-deck_pos(rank,suit)) : 0)", ["BC64::from_ckc"])
ob("C14.from_binary_card", "c14::from_binary_card", {"C14": "P"},
   "forall b:u64. from_binary_card(b) == (b is a single bit below 2^52 ? the card at deck position 51-bit : blank)", ["PokerCard::from_binary_card"])
ob("C14.round_trip", "c14::round_trip", {"C14": "P"},
   "forall 52 cards: word->bit->word and bit->word->bit are identities; the named bit constants, BinaryCard::DECK[i] == 1<<(51-i), and POKER_DECK[i] <-> DECK[i]; ALL/OVERFLOW masks",
   ["BC64::from_ckc", "PokerCard::from_binary_card", "BC64::DECK", "BC64 card constants", "BC64::ALL", "BC64::OVERFLOW"])

# ------------------------------------------------------------------ C15
for n, T in SIZES:
    ob("C15.from_%d" % n, "c15::from_%d" % n, {"C15": "P"},
       "forall %d words: from_%s(h) == OR of the slot bits (word->bit per C14); has(card) <=> the card is in a slot; no overflow bits" % (n, WORD[n]),
       ["BC64::from_%s" % WORD[n], "BC64::has"], unwind=n + 2, timeout=900, weight=2)
    if n >= 6:
        continue  # count_6 / count_7 do not finish (30 min limit): popcount of a 6-7-way OR against a distinct-card count
    ob("C15.count_%d" % n, "c15::count_%d" % n, {"C15": "P"},
       "forall %d words: number_of_cards(from_%s(h)) == number of distinct real cards among the slots" % (n, WORD[n]),
       ["BC64::from_%s" % WORD[n], "BC64::number_of_cards"], unwind=n + 2, timeout=1800, weight=3,
       tier="quick" if n <= 4 else "thorough")
ob("C15.set_ops", "c15::set_ops", {"C15": "P"},
   "forall b,c:u64. fold_in == |; has(c) <=> c subset of b; number_of_cards == popcount; is_single_card <=> popcount == 1; is_valid <=> b != 0 and no bit >= 52",
   ["BC64::fold_in", "BC64::has", "BC64::number_of_cards", "BC64::is_single_card", "BC64::is_valid", "BC64::as_u64"], unwind=66)
ob("C15.peel", "c15::peel", {"C15": "P", "C16": "H"},
   "forall b:u64. peel: no card bit -> returns 0 and leaves b; else returns the highest card bit and clears exactly that bit (overflow bits untouched)",
   ["BC64::peel"], unwind=66)
ob("C15.peel_twice", "c15::peel_twice", {"C15": "P"},
   "forall b < 2^52: two consecutive peels return members in strictly descending deck order with no member skipped, then blank forever; remaining set == b minus the peeled bits",
   ["BC64::peel"], unwind=66)

# ------------------------------------------------------------------ C16
ob("C16.try_from", "c16::try_from", {"C16": "P"},
   "forall b:u64. Two::try_from(b): popcount<2 -> NotEnoughCards; >2 -> TooManyCards; ==2 with a bit >= 52 -> InvalidBinaryFormat; else Ok(two) with first/second the higher/lower bit's card and from_two(two) == b",
   ["Two::try_from(BinaryCard)", "BC64::peel", "BC64::number_of_cards", "PokerCard::from_binary_card", "Two::is_valid", "BC64::from_two"], unwind=66)

# ------------------------------------------------------------------ C17
ob("C17.chen", "c17::chen_formula", {"C17": "P"},
   "forall ordered pairs of distinct cards: chen_formula == round_half_up(Chen half-points/2); get_gap, high_card, is_pocket_pair, is_suited, is_connector, is_suited_connector per definition; symmetric; shift-invariant",
   ["Two::chen_formula", "Two::get_gap", "Two::high_card", "Two::is_connector", "Two::is_pocket_pair", "Two::is_suited",
    "Two::is_suited_connector", "PokerCard::get_chen_points", "Two::sort", "Two::shift_suit"], unwind=5, timeout=600)
ob("C17.chen_points", "c17::chen_points", {"C17": "P"},
   "forall cards: get_chen_points == 10/8/7/6 for A/K/Q/J else pip/2; blank 0", ["PokerCard::get_chen_points"])

# ------------------------------------------------------------------ C18
ob("C18.deck", "c18::deck", {"C18": "P"},
   "forall i:usize. Deck::get(i) == (i<52 ? layout(12-i%13, 3-i/13) : 0); len == 52; POKER_DECK in that order with no duplicates",
   ["Deck::get", "Deck::len", "Deck::arr", "deck::POKER_DECK"])
ob("C18.presets", "c18::presets", {"C18": "P"},
   "forall suit pairs (s1,s2): AA holds (A s1, A s2) exactly once iff s1>s2 (6 entries, higher first); AK holds (A s1,K s2) exactly once (16); AKs/AKo and AQs/AQo hold it exactly once iff suited / offsuit; every entry is of its described form; AK = AKs disjoint-union AKo",
   ["Two::AA", "Two::AK", "Two::AKs", "Two::AKo", "Two::AQs", "Two::AQo"], unwind=18)
ob("C18.slot_tables", "c18::slot_tables", {"C18": "P", "C02": "H", "C09": "H"},
   "Seven/Six::FIVE_CARD_PERMUTATIONS and Four::OMAHA_PERMUTATIONS: every row strictly increasing below n, consecutive rows in increasing lexicographic order, and every increasing tuple occurs (symbolic tuple)",
   ["Seven::FIVE_CARD_PERMUTATIONS", "Six::FIVE_CARD_PERMUTATIONS", "Four::OMAHA_PERMUTATIONS"], unwind=23)

# ------------------------------------------------------------------ C13
ob("C13.predicates", "c13::predicates", {"C13": "P"},
   "forall five distinct cards, any slot order: is_flush <=> one suit; is_straight <=> five distinct consecutive ranks (ace may play low); is_straight_flush <=> both; is_wheel <=> {A,5,4,3,2}; or_rank_bits/and_bits/or_bits; deprecated free functions agree; predicates agree with the category by the rules",
   ["Five::is_flush", "Five::is_straight", "Five::is_straight_flush", "Five::is_wheel", "Five::or_rank_bits", "Five::and_bits",
    "Five::or_bits", "evaluate::is_flush", "evaluate::or_rank_bits"], unwind=7, timeout=600)

# ------------------------------------------------------------------ C06
ob("C06.name_class_all", "c06::name_class_all", {"C06": "P"},
   "forall v:u16. determine_name/determine_class/HandRank::from(v) fields == class_of_value(v) through the name tables; Invalid for both iff v==0 or v>7462; is_invalid; is_a_valid_hand_rank; default()==from(0)",
   ["HandRank::determine_name", "HandRank::determine_class", "HandRank::from", "HandRank::is_invalid",
    "HandRank::is_a_valid_hand_rank", "HandRank::default"], unwind=12, timeout=900)
ob("C06.class_ranges", "c06::class_ranges", {"C06": "P"},
   "forall v in 1..7462: class index steps by 0 or +1 from v to v+1, starts at 0 (v=1) and ends at 308 (v=7462): each of the 309 classes is a contiguous non-empty range; same for the 9 categories",
   ["HandRank::determine_class", "HandRank::determine_name"])
ob("C06.class_table_order", "c06::class_table_order", {"C06": "P", "C07": "H"},
   "the 310 class identifiers (spelled from the naming scheme) and 10 category identifiers are declared in strength order", ["HandRankClass", "HandRankName"])

# ------------------------------------------------------------------ C07
ob("C07.pair_laws", "c07::pair_laws", {"C07": "P"},
   "forall (v1,v2) in u16^2: valid ranks compare by reversed value; invalid below valid; cmp==Equal <=> a==b <=> v1==v2; antisymmetric; partial_cmp == Some(cmp); < <= > >= agree",
   ["HandRank::cmp", "HandRank::partial_cmp", "HandRank::eq", "HandRank::from"], timeout=900)
ob("C07.transitive", "c07::transitive", {"C07": "P"},
   "forall (v1,v2,v3) in u16^3: a<=b and b<=c => a<=c; a<b and b<=c => a<c", ["HandRank::cmp"], timeout=1200, weight=3)
ob("C07.enum_monotone", "c07::enum_monotone", {"C07": "P"},
   "forall valid v1<v2: name(v1)<=name(v2), class(v1)<=class(v2) under the derived Ord; Invalid is greatest; from(v1) > from(v2)",
   ["HandRankName: Ord", "HandRankClass: Ord", "HandRank::determine_name", "HandRank::determine_class"], timeout=900)

# ------------------------------------------------------------------ C08 (card / slot-wise part)
ob("C08.card_cycle", "c08::card_cycle", {"C08": "P"},
   "forall cards: shift_suit == same rank with suit S->H->D->C->S; four shifts restore; blank stays blank",
   ["Shifty::shift_suit for CKCNumber", "PokerCard::next_suit"])
for n, T in SIZES:
    ob("C08.slotwise_%d" % n, "c08::slotwise_%d" % n, {"C08": "P"},
       "forall %d words: %s::shift_suit() slot i == slot_i.shift_suit()" % (n, T), ["%s::shift_suit" % T], unwind=n + 2)
ob("C08.five_triple", "c08::five_triple", {"C08": "P"},
   "forall five distinct cards, any order, forall 24 suit relabellings: or_rank_bits, is_flush and multiply_primes are unchanged (with K3 = value is a function of that triple: the value is unchanged)",
   ["Five::or_rank_bits", "Five::is_flush", "Five::multiply_primes", "Five::shift_suit"], unwind=7, timeout=600)

# ------------------------------------------------------------------ C04 (validity part)
for n, T in SIZES:
    ob("C04.valid_%d" % n, "c04::valid_%d" % n, {"C04": "P"},
       "forall %d words: %s::is_valid <=> all slots are card words and pairwise distinct; is_corrupt <=> some non-card slot; contain_blank <=> some 0 slot; are_unique <=> pairwise distinct%s" % (
           n, T, " (exact when no slot is 0xFFFFFFFF; never wrongly true)" if n >= 6 else ""),
       ["%s::is_valid" % T, "%s::is_corrupt" % T, "%s::are_unique" % T, "%s::contain_blank" % T], unwind=n + 3,
       timeout=1500 if n >= 6 else 600, weight=4 if n >= 6 else 1)

# ------------------------------------------------------------------ C12 (character level)
ob("C12.rank_char", "c12::rank_char", {"C12": "P"},
   "forall Unicode scalar values c: CardRank::from_char(c) equals the rank symbol table (A K Q J T 0 9-2 either case, else BLANK)", ["CardRank::from_char"])
ob("C12.suit_char", "c12::suit_char", {"C12": "P"},
   "forall Unicode scalar values c: CardSuit::from_char(c) equals the suit symbol table (S H D C either case, filled or outline glyph, else BLANK)", ["CardSuit::from_char"])
ob("C12.render_parse", "c12::render_parse", {"C12": "P"},
   "forall 52 cards x {glyph, letter}: from_index(rank char + suit char) == the card; get_rank_and_suit returns its rank and suit",
   ["PokerCard::from_index", "parse::get_rank_and_suit", "PokerCard::get_rank_char", "PokerCard::get_suit_char", "PokerCard::get_suit_letter"], unwind=6)
ob("C12.two_chars", "c12::two_chars", {"C12": "P"},
   "forall pairs of Unicode scalar values (c0,c1): from_index of the two-character token == the card of (rank(c0), suit(c1)) if both are symbols, else blank",
   ["PokerCard::from_index", "parse::get_rank_and_suit", "PokerCard::create"], unwind=6, timeout=900)
ob("C12.short_tokens", "c12::short_tokens", {"C12": "P"},
   "forall one-character tokens and the empty token: blank", ["PokerCard::from_index", "parse::get_rank_and_suit"], unwind=6)

# measured solver seconds on this box (unloaded); the per-obligation limit is max(300, 8 x measured)
MEASURED = {"C01.entry_points": 61, "C01.k1": 16, "C01.k3": 59, "C01.rep_distinct": 76, "C01.rep_full_house": 55, "C01.rep_pair": 219, "C01.rep_quads": 51, "C01.rep_trips": 64, "C01.rep_two_pair": 103, "C01.sort_lemma": 117, "C02.seven_entry_points": 170, "C02.seven_min": 71, "C02.six_entry_points": 116, "C02.six_min": 19, "C02.validated_rank": 133, "C03.five_identity": 68, "C03.seven_witness": 155, "C03.six_witness": 62, "C04.valid_2": 2, "C04.valid_3": 3, "C04.valid_4": 4, "C04.valid_5": 14, "C04.valid_6": 67, "C04.valid_7": 167, "C05.blank_five_invalid": 52, "C05.find_kb": 493, "C05.find_total": 29, "C05.five_safe": 11, "C05.products_floor": 7, "C05.seven_safe": 8, "C05.six_safe": 4, "C06.class_ranges": 42, "C06.class_table_order": 0, "C06.name_class_all": 74, "C07.enum_monotone": 68, "C07.pair_laws": 40, "C07.transitive": 46, "C08.card_cycle": 1, "C08.five_triple": 130, "C08.six_shift": 34, "C08.seven_shift": 116, "C08.slotwise_2": 1, "C08.slotwise_3": 1, "C08.slotwise_4": 2, "C08.slotwise_5": 2, "C08.slotwise_6": 3, "C08.slotwise_7": 4, "C09.min_lemma": 132, "C10.accessors": 1, "C10.constants": 0, "C10.create": 0, "C10.filter_exact": 0, "C11.card_order": 0, "C11.sort_2": 3, "C11.sort_3": 4, "C11.sort_4": 7, "C11.sort_5": 11, "C11.sort_6": 40, "C11.sort_7": 132, "C12.card_token_bytes": 37, "C12.rank_char": 0, "C12.render_parse": 4, "C12.short_tokens": 2, "C12.suit_char": 0, "C12.two_chars": 4, "C13.predicates": 13, "C14.from_binary_card": 0, "C14.from_ckc": 0, "C14.round_trip": 1, "C15.count_2": 1, "C15.count_3": 4, "C15.count_4": 82, "C15.from_2": 2, "C15.from_3": 2, "C15.from_4": 2, "C15.from_5": 3, "C15.from_6": 3, "C15.from_7": 4, "C15.peel": 8, "C15.peel_all": 543, "C15.peel_twice": 14, "C15.set_ops": 7, "C16.try_from": 32, "C17.chen": 23, "C17.chen_points": 0, "C18.deck": 0, "C18.presets": 3, "C18.slot_tables": 4, "C19.five": 3, "C19.four": 1, "C19.seven": 9, "C19.seven_two_writes": 1, "C19.six": 7, "C19.three": 1, "C19.two": 1, "C20.flags": 1, "C20.order": 0}

if __name__ == "__main__":
    exec(open(os.path.join(ROOT, "tools", "obs_def2.py")).read()) if os.path.exists(os.path.join(ROOT, "tools", "obs_def2.py")) else None
    for o in OBS:
        m = MEASURED.get(o["name"])
        if m is not None and o["engine"] == "kani":
            o["timeout"] = max(300, 8 * m)
            o["measured_s"] = m
    with open(os.path.join(ROOT, "obligations.json"), "w") as f:
        json.dump(OBS, f, indent=1)
    print(len(OBS), "obligations")
