#!/usr/bin/env python3
"""Generates contracts/src/spec/names.rs: tables of the published card constants
indexed by (rank, suit), spelled from the constant naming scheme <RANK>_<SUIT>."""
import sys
R=["DEUCE","TREY","FOUR","FIVE","SIX","SEVEN","EIGHT","NINE","TEN","JACK","QUEEN","KING","ACE"]
S=["CLUBS","DIAMONDS","HEARTS","SPADES"]
o=["// GENERATED (see tools/gen_names.py): the published constants by (rank, suit) name.",
"use ckc_rs::cards::binary_card::{BinaryCard, BC64};","use ckc_rs::CardNumber;",
"/// NAMED_CKC[r][s] is the word constant named <RANK>_<SUIT>","pub const NAMED_CKC: [[u32; 4]; 13] = ["]
for r in R: o.append("    ["+", ".join(f"CardNumber::{r}_{s}" for s in S)+"],")
o.append("];")
o.append("/// NAMED_BC[r][s] is the bit constant named <RANK>_<SUIT>")
o.append("pub const NAMED_BC: [[u64; 4]; 13] = [")
for r in R: o.append("    ["+", ".join(f"<BinaryCard as BC64>::{r}_{s}" for s in S)+"],")
o.append("];")
open(sys.argv[1],"w").write("\n".join(o)+"\n")
