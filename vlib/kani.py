"""Running Kani harnesses in batches and parsing per-harness result files."""
import os, re, shutil, subprocess, time
from . import registry

CONTRACTS = registry.CONTRACTS
OUTDIR = os.path.join(CONTRACTS, "result_output_dir")
ENV = dict(os.environ, CARGO_NET_OFFLINE="true", CARGO_TERM_COLOR="never")

CHECK_RE = re.compile(
    r"Check (\d+): (\S.*?)\n\s*- Status: (\w+)\n\s*- Description: \"(.*?)\"\n\s*- Location: (.*?)\n", re.S)


def _classify_location(loc):
    l = loc.strip()
    if "repo/src/" in l:
        return "repo"
    if l.startswith("src/spec") or l.startswith("src/ob") or l.startswith("src/stubs") or l.startswith("src/src.rs") or l.startswith("src/kani_gen"):
        return "contracts"
    return "std"


def parse_result_text(text):
    """-> dict(status, n_checks, n_failed, covers, failures, time_s, verdict_line)"""
    res = {"checks": 0, "failed_clauses": [], "failed_safety": [], "oracle_errors": [], "unwind_failures": [],
           "unsupported": [], "undetermined": 0, "covers": {}, "time_s": None, "verdict": None, "summary": None}
    for m in CHECK_RE.finditer(text):
        _, cname, status, desc, loc = m.groups()
        desc = desc.strip('"')
        if ".cover." in cname:
            res["covers"][desc] = status
            continue
        res["checks"] += 1
        if status == "UNDETERMINED":
            res["undetermined"] += 1
        if status != "FAILURE":
            continue
        where = _classify_location(loc)
        item = {"description": desc, "location": loc.strip(), "check": cname}
        if desc.startswith("unwinding assertion"):
            res["unwind_failures"].append(item)
        elif re.match(r"^C\d\d\.", desc) or re.match(r"^[A-Z]\d?\.", desc):
            res["failed_clauses"].append(item)
        elif "unsupported_construct" in cname or "not currently supported" in desc:
            res["unsupported"].append(item)
        elif where == "contracts":
            res["oracle_errors"].append(item)
        else:
            res["failed_safety"].append(item)
    m = re.search(r"\*\* (\d+) of (\d+) failed", text)
    if m:
        res["summary"] = m.group(0)
    m = re.search(r"VERIFICATION:- (\w+)", text)
    if m:
        res["verdict"] = m.group(1)
    m = re.search(r"Verification Time: ([0-9.]+)s", text)
    if m:
        res["time_s"] = float(m.group(1))
    timed_out = "timed out" in text
    bad_covers = [k for k, v in res["covers"].items() if v != "SATISFIED"]
    if res["failed_clauses"] or res["failed_safety"]:
        res["status"] = "failed"
    elif timed_out:
        res["status"] = "undecided"
        res["reason"] = "timeout"
    elif res["unwind_failures"]:
        res["status"] = "undecided"
        res["reason"] = "unwinding assertion failed (a loop ran longer than the stated bound)"
    elif res["oracle_errors"]:
        res["status"] = "undecided"
        res["reason"] = "failure inside the contracts crate (oracle error): " + res["oracle_errors"][0]["description"]
    elif res["unsupported"]:
        res["status"] = "undecided"
        res["reason"] = "unsupported construct reachable"
    elif res["verdict"] == "SUCCESSFUL" and res["checks"] > 0 and not bad_covers and res["undetermined"] == 0:
        res["status"] = "discharged"
    elif bad_covers and res["verdict"] == "SUCCESSFUL":
        res["status"] = "undecided"
        res["reason"] = "vacuity guard: cover not satisfied: " + ", ".join(bad_covers)
    else:
        res["status"] = "undecided"
        res["reason"] = "no verdict (%s)" % (res["verdict"],)
    return res


BUILD_DIR = os.path.join(CONTRACTS, "target", "kani", "x86_64-unknown-linux-gnu", "debug", "build", "ckc-contracts")


def prune_build_dirs(keep=3):
    """every distinct harness set gets its own build directory; keep only the newest few"""
    try:
        ds = sorted((os.path.join(BUILD_DIR, d) for d in os.listdir(BUILD_DIR)), key=os.path.getmtime, reverse=True)
    except OSError:
        return
    for d in ds[keep:]:
        shutil.rmtree(d, ignore_errors=True)


def goto_hashes(obs, log):
    """Compile the harnesses of `obs` (no verification) and return {obligation: sha256 of its goto
    binary}. The goto binary of a harness contains every function reachable from it (MIR linker),
    with source locations, so an unchanged hash means CBMC would be given the identical program.
    Returns ({} , error text) when the build fails."""
    import hashlib
    registry.generate()
    prune_build_dirs(keep=2)
    try:
        shutil.copyfile("/repo/Cargo.lock", os.path.join(CONTRACTS, "Cargo.lock"))
    except OSError:
        pass
    cmd = ["cargo", "kani", "--lib", "-Z", "stubbing", "-Z", "unstable-options", "--only-codegen", "--exact"]
    for o in obs:
        cmd += ["--harness", "kani_gen::" + registry.harness_name(o["name"])]
    t0 = time.time()
    p = subprocess.run(cmd, cwd=CONTRACTS, env=ENV, stdout=subprocess.PIPE, stderr=subprocess.STDOUT, text=True)
    if p.returncode != 0:
        return {}, "\n".join(p.stdout.splitlines()[-60:])
    newest = {}
    for d, _, files in os.walk(BUILD_DIR):
        for f in files:
            if f.endswith(".symtab.out"):
                newest.setdefault(f, []).append(os.path.join(d, f))
    out = {}
    for o in obs:
        h = registry.harness_name(o["name"])
        suffix = "%d%s.symtab.out" % (len(h), h)
        cands = [pth for f, ps in newest.items() if f.endswith(suffix) for pth in ps]
        if not cands:
            continue
        best = max(cands, key=os.path.getmtime)
        if os.path.getmtime(best) < t0 - 1:
            continue  # stale artefact of an earlier build: do not trust
        sha = hashlib.sha256()
        with open(best, "rb") as f:
            sha.update(f.read())
        sha.update(repr((o["unwind"], o["solver"], [(st["target"], st["with"]) for st in o["stubs"]])).encode())
        out[o["name"]] = sha.hexdigest()[:32]
    log("kani codegen: %d harness(es) hashed in %.0fs" % (len(out), time.time() - t0))
    return out, None


def run_batch(obs, jobs, timeout_s, log):
    """Run the Kani harnesses of `obs` in one cargo-kani invocation. Returns
    {obligation name: result dict}; a build failure returns {'__build_error__': text}."""
    registry.generate()
    prune_build_dirs(keep=3)
    if os.path.isdir(OUTDIR):
        shutil.rmtree(OUTDIR)
    lock = os.path.join(CONTRACTS, "Cargo.lock")
    try:
        shutil.copyfile("/repo/Cargo.lock", lock)
    except OSError:
        pass
    cmd = ["cargo", "kani", "--lib", "-Z", "stubbing", "-Z", "unstable-options", "--exact"]
    for o in obs:
        cmd += ["--harness", "kani_gen::" + registry.harness_name(o["name"])]
    cmd += ["-j", str(jobs), "--output-format", "terse", "--output-into-files", "--harness-timeout", str(int(timeout_s))]
    t0 = time.time()
    log("kani: %d harness(es), -j %d, per-harness timeout %ds (own limits enforced by watchdog)" % (len(obs), jobs, timeout_s))
    # Kani's --harness-timeout is one value per invocation; each obligation has its own limit, enforced
    # here by terminating the CBMC process of a harness that exceeds it (reported as undecided: timeout).
    import threading
    limits = {}
    for o in obs:
        h = registry.harness_name(o["name"])
        limits["%d%s." % (len(h), h)] = (o["name"], o["timeout"])
    killed = {}
    stop = threading.Event()

    def watchdog():
        while not stop.wait(5.0):
            try:
                ps = subprocess.run(["ps", "-eo", "pid,etimes,args"], stdout=subprocess.PIPE, text=True).stdout
            except OSError:
                continue
            for line in ps.splitlines():
                parts = line.split(None, 2)
                if len(parts) < 3 or not parts[2].startswith("cbmc "):
                    continue
                for key, (name, lim) in limits.items():
                    if key in parts[2] and int(parts[1]) > lim and name not in killed:
                        killed[name] = int(parts[1])
                        try:
                            os.kill(int(parts[0]), 15)
                        except OSError:
                            pass

    wd = threading.Thread(target=watchdog, daemon=True)
    wd.start()
    try:
        p = subprocess.run(cmd, cwd=CONTRACTS, env=ENV, stdout=subprocess.PIPE, stderr=subprocess.STDOUT, text=True)
    finally:
        stop.set()
    wall = time.time() - t0
    out = p.stdout
    if "Checking harness" not in out:
        errs = [l for l in out.splitlines() if l.startswith("error")]
        return {"__build_error__": "\n".join(out.splitlines()[-60:]), "__errors__": errs}
    results = {}
    for o in obs:
        h = "kani_gen::" + registry.harness_name(o["name"])
        path = os.path.join(OUTDIR, h)
        if os.path.exists(path):
            with open(path, errors="replace") as f:
                text = f.read()
            r = parse_result_text(text)
            r["raw_tail"] = "\n".join(text.splitlines()[-25:])
        else:
            r = {"status": "undecided", "reason": "no result file (harness did not run)", "checks": 0, "covers": {},
                 "failed_clauses": [], "failed_safety": [], "time_s": None, "raw_tail": "\n".join(out.splitlines()[-25:])}
        if r["status"] == "undecided" and r.get("reason") == "no verdict (None)" and "timed out" in out:
            r["reason"] = "timeout"
        if o["name"] in killed:
            r["status"] = "undecided"
            r["reason"] = "timeout (obligation limit %ds)" % o["timeout"]
        r["batch_wall_s"] = round(wall, 1)
        r["engine"] = "kani 0.68.0 / cbmc 6.11.0 / " + (o.get("solver") or "cadical")
        r["harness"] = h
        results[o["name"]] = r
    return results


def playback(o, timeout_s, log, want_descriptions=None):
    """Re-run one failing harness with concrete playback; returns list of byte lists or None."""
    registry.generate()
    h = "kani_gen::" + registry.harness_name(o["name"]) + "_playback"
    cmd = ["cargo", "kani", "--lib", "-Z", "stubbing", "-Z", "unstable-options", "-Z", "concrete-playback",
           "--concrete-playback=print", "--exact", "--harness", h, "--output-format", "terse",
           "--harness-timeout", str(int(timeout_s))]
    log("kani playback: " + h)
    try:
        p = subprocess.run(cmd, cwd=CONTRACTS, env=ENV, stdout=subprocess.PIPE, stderr=subprocess.STDOUT, text=True,
                           timeout=timeout_s + 300)
    except subprocess.TimeoutExpired:
        return None, "playback timed out"
    out = p.stdout
    # one generated test per failed check AND per satisfied cover: take the test of a failed check
    tests = []
    for tm in re.finditer(r"/// Check for `(\w+)`: \"(.*?)\"\n.*?let concrete_vals: Vec<Vec<u8>> = vec!\[(.*?)\n\s*\];", out, re.S):
        kind, desc, body = tm.group(1), tm.group(2).strip('"'), tm.group(3)
        vecs = []
        for vm in re.finditer(r"vec!\[([0-9, ]*)\]", body):
            b = vm.group(1).strip()
            vecs.append([int(x) for x in b.split(",") if x.strip()] if b else [])
        tests.append((kind, desc, vecs))
    if not tests:
        return None, "\n".join(out.splitlines()[-30:])
    want = set(want_descriptions or [])
    for kind, desc, vecs in tests:
        if kind != "cover" and (desc in want or desc.strip('"') in want):
            return vecs, desc
    for kind, desc, vecs in tests:
        if kind != "cover":
            return vecs, desc
    return None, "only cover tests were generated"
