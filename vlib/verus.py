"""Verus unit: Five::find_in_products extracted verbatim from /repo on every run."""
import importlib.util, os, re, subprocess, time

ROOT = os.path.dirname(os.path.dirname(os.path.abspath(__file__)))
WORK = os.path.join(ROOT, "work")

ERR_RE = re.compile(r"^error: (.*?)\n\s*--> ([^\n:]+):(\d+):(\d+)", re.M)


def _load_extract():
    spec = importlib.util.spec_from_file_location("extract", os.path.join(ROOT, "verus", "extract.py"))
    m = importlib.util.module_from_spec(spec)
    spec.loader.exec_module(m)
    return m


def run(o, log):
    os.makedirs(WORK, exist_ok=True)
    ex = _load_extract()
    out_path = os.path.join(WORK, "find_in_products.rs")
    base = {"checks": 0, "covers": {}, "failed_clauses": [], "failed_safety": [], "time_s": None,
            "engine": "verus 0.2026.09.13 / z3"}
    try:
        info = ex.build(out_path, must_fail_twin=True)
    except ex.ExtractError as e:
        return dict(base, status="undecided", reason="extraction: " + str(e))
    except OSError as e:
        return dict(base, status="undecided", reason="extraction: " + str(e))
    text = open(out_path).read()
    lines = text.splitlines()
    # trust scan of the generated file
    for word in ("assume(", "admit(", "external_body", "assume_specification", "external_fn_specification"):
        if word in text:
            return dict(base, status="undecided", reason="generated Verus file contains `%s`" % word)
    # line ranges of the real function and of the twin
    def fn_range(name):
        for i, l in enumerate(lines):
            if ("fn %s(" % name) in l:
                depth = 0
                started = False
                for j in range(i, len(lines)):
                    code = lines[j].split("//")[0]
                    depth += code.count("{") - code.count("}")
                    if "{" in code:
                        started = True
                    if started and depth == 0:
                        return (i + 1, j + 1)
        return None
    real_rng = fn_range("find_in_products")
    twin_rng = fn_range("find_in_products_must_fail_twin")
    t0 = time.time()
    log("verus: find_in_products (extracted from /repo/src/cards/five.rs) + must-fail twin")
    try:
        p = subprocess.run(["verus", out_path, "--time"], cwd=WORK, stdout=subprocess.PIPE, stderr=subprocess.STDOUT,
                           text=True, timeout=int(o.get("timeout", 900)))
    except subprocess.TimeoutExpired:
        return dict(base, status="undecided", reason="verus timeout")
    wall = time.time() - t0
    out = "\n".join(l for l in p.stdout.splitlines() if not re.match(r"^\s*\d+\s*\|?\s*[0-9, ]+$", l))
    m = re.search(r"verification results:: (\d+) verified, (\d+) errors", out)
    if not m:
        return dict(base, status="undecided", reason="verus produced no verdict (unsupported construct / compile error)",
                    raw_tail=out[-3000:])
    verified, nerr = int(m.group(1)), int(m.group(2))
    smt = re.search(r"total smt-time:\s+(\d+) ms", out)
    res = dict(base, checks=verified + nerr, time_s=round(wall, 1),
               summary=m.group(0) + " (one error is required: the must-fail twin with `ensures false`)",
               smt_ms=int(smt.group(1)) if smt else None, raw_tail=out[-3000:],
               extraction={k: info[k] for k in ("source", "span_bytes", "sha256_source_span", "sha256_extracted_body", "verbatim")})
    if "rlimit" in out.lower() and "exceeded" in out.lower():
        return dict(res, status="undecided", reason="verus resource limit exceeded")
    errs = []
    twin_rejected = False
    for em in ERR_RE.finditer(out):
        msg, _file, line, _col = em.group(1), em.group(2), int(em.group(3)), em.group(4)
        if msg.startswith("aborting"):
            continue
        code = lines[line - 1].strip() if 0 < line <= len(lines) else ""
        if twin_rng and twin_rng[0] <= line <= twin_rng[1]:
            twin_rejected = True
            continue
        where = "find_in_products" if real_rng and real_rng[0] <= line <= real_rng[1] else "prelude"
        errs.append({"description": "C05.find_total: %s at `%s`" % (msg, code), "location": "%s (extracted) line %d" % (where, line),
                     "check": where})
    res["covers"] = {"C05.find_total.must_fail_twin_rejected": "SATISFIED" if twin_rejected else "UNSATISFIABLE"}
    if errs:
        res["failed_clauses"] = errs
        res["status"] = "failed"
        return res
    if not twin_rejected:
        return dict(res, status="undecided", reason="vacuity guard: the `ensures false` twin was not rejected")
    if verified < 10:
        return dict(res, status="undecided", reason="fewer verified items than expected (%d)" % verified)
    res["status"] = "discharged"
    return res
