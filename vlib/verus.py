"""Verus unit (filled in with the extraction machinery)."""


def run(o, log):
    return {"status": "undecided", "reason": "verus unit not built yet", "checks": 0, "covers": {},
            "failed_clauses": [], "failed_safety": [], "time_s": None, "engine": "verus"}
