"""Obligation registry: obligations.json is the single source for the Kani harness
wrappers (contracts/src/kani_gen.rs) and the native dispatch table
(contracts/src/dispatch_gen.rs)."""
import json, os, re

ROOT = os.path.dirname(os.path.dirname(os.path.abspath(__file__)))
CONTRACTS = os.path.join(ROOT, "contracts")


def load():
    with open(os.path.join(ROOT, "obligations.json")) as f:
        obs = json.load(f)
    names = set()
    for o in obs:
        assert o["name"] not in names, "duplicate obligation " + o["name"]
        names.add(o["name"])
        o.setdefault("engine", "kani")
        o.setdefault("tier", "quick")
        o.setdefault("unwind", None)
        o.setdefault("stubs", [])
        o.setdefault("timeout", 900)
        o.setdefault("solver", None)
        o.setdefault("bounded", None)
        o.setdefault("functions", [])
        o.setdefault("needs", [])
        o.setdefault("weight", 1)
    return obs


def harness_name(name):
    return "k_" + re.sub(r"[^A-Za-z0-9]", "_", name).lower()


def _write_if_changed(path, text):
    try:
        with open(path) as f:
            if f.read() == text:
                return
    except FileNotFoundError:
        pass
    with open(path, "w") as f:
        f.write(text)


def generate(obs=None):
    obs = obs or load()
    k = ["// GENERATED from /verif/obligations.json by vlib/registry.py - do not edit.",
         "// One #[kani::proof] wrapper per obligation: the obligation body with symbolic draws.",
         "#![allow(unused_imports)]",
         "use crate::src::KaniSrc;", ""]
    d = ["// GENERATED from /verif/obligations.json by vlib/registry.py - do not edit.",
         "use crate::src::Src;", "",
         "/// run obligation `name` on the given value source; false if there is no such obligation",
         "pub fn dispatch<S: Src>(name: &str, s: &mut S) -> bool {",
         "    match name {"]
    for o in obs:
        if o["engine"] == "native":
            d.append('        "%s" => crate::ob::%s(s),' % (o["name"], o["fn"]))
        if o["engine"] != "kani":
            continue
        attrs = ["#[kani::proof]"]
        if o["unwind"] is not None:
            attrs.append("#[kani::unwind(%d)]" % o["unwind"])
        if o["solver"]:
            attrs.append("#[kani::solver(%s)]" % o["solver"])
        for st in o["stubs"]:
            attrs.append("#[kani::stub(%s, %s)]" % (st["target"], st["with"]))
        k.extend(attrs)
        k.append("pub fn %s() {" % harness_name(o["name"]))
        k.append("    crate::ob::%s(&mut KaniSrc);" % o["fn"])
        k.append("}")
        k.append("")
        # playback variant: identical, vacuity covers switched off
        k.extend(attrs)
        k.append("pub fn %s_playback() {" % harness_name(o["name"]))
        k.append("    unsafe { crate::src::REACH_OFF = true; }")
        k.append("    crate::ob::%s(&mut KaniSrc);" % o["fn"])
        k.append("}")
        k.append("")
        d.append('        "%s" => crate::ob::%s(s),' % (o["name"], o["fn"]))
    d += ["        _ => return false,", "    }", "    true", "}", ""]
    d.append("pub const NAMES: &[&str] = &[")
    for o in obs:
        if o["engine"] in ("kani", "native"):
            d.append('    "%s",' % o["name"])
    d.append("];")
    _write_if_changed(os.path.join(CONTRACTS, "src", "kani_gen.rs"), "\n".join(k) + "\n")
    _write_if_changed(os.path.join(CONTRACTS, "src", "dispatch_gen.rs"), "\n".join(d) + "\n")


if __name__ == "__main__":
    generate()
